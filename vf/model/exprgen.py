"""Random and boundary workload for the expression model (vf/model/expr.py).

Every restriction below of the form "not generated" exists because the manual does
not define the case (see the `Silent` exceptions of the model) or because the manual's
description of the *syntax* leaves the reading open.
"""
from . import expr as E
from .expr import Node, Silent, Undefined, IllTyped

IMIN, IMAX = E.IMIN, E.IMAX

BOUNDARY_INTS = [0, 1, -1, 2, -2, 3, 5, 7, 8, 10, 15, 16, 31, 32, 33, 63, 64, 65, 100, 127, 128, 255, 256, 1000,
                 32767, 32768, 65535, 65536, (1 << 31) - 1, 1 << 31, (1 << 31) + 1, (1 << 32) - 1, 1 << 32,
                 (1 << 32) + 1, 1 << 62, IMAX, IMAX - 1, IMIN, IMIN + 1, -(1 << 31), -(1 << 31) - 1, -(1 << 32),
                 -255, -256, -65536, 0x5555555555555555, 0x0123456789ABCDEF, -0x0123456789ABCDEF]
BOUNDARY_FLOATS = ['0.0', '1.0', '(-1.0)', '2.0', '(-2.0)', '0.5', '(-0.5)', '3.0', '(-3.0)', '1.5', '(-1.5)', '2.5',
                   '10.0', '0.25', '100.0', '(-8.0)', '4.0', '0.1', '(-0.1)', '1.0E10', '(-1.0E10)', '(1.0E-10)',
                   '1.0E100', '(1.0E-100)', '123456.789', '3.141592653589793', '2.718281828459045', '7.0', '(-7.0)',
                   '1E3', '2e2', '6.02E23', '(-2.5E-3)', '9007199254740993.0', '4294967296.0', '0.3333333333333333']
SAFE_CHARS = 'abcdefghijklmnopqrstuvwxyzABCDEFGHIJKLMNOPQRSTUVWXYZ0123456789 +-*/<>=!&|~#^$%@.,:;()[]_?'
# control/special characters only through the documented escapes; \' and \" are not used
# because the manual itself warns that the line splitter miscounts them
ESCAPES = [('\\t', 9), ('\\n', 10), ('\\r', 13), ('\\a', 7), ('\\b', 8), ('\\e', 27), ('\\\\', 92), ('\\h', 39),
           ('\\i', 34), ('\\H', 39), ('\\I', 34), ('\\T', 9), ('\\65', 65), ('\\x41', 65), ('\\X7e', 126),
           ('\\0101', 65), ('\\9', 9), ('\\127', 127), ('\\x7F', 127), ('\\032', 26)]
HIGH_ESCAPES = [('\\200', 200), ('\\255', 255), ('\\xff', 255), ('\\x80', 128), ('\\128', 128), ('\\0377', 255)]


def flit(text):
    t = text.strip('()')
    return Node('lit', text=text, val=('f', float(t)))


class Gen:
    def __init__(self, rng, high_chars=True):
        self.rng = rng
        self.high_chars = high_chars
        self.syms = {'i': [], 'f': [], 's': []}
        self.sym_prob = 0.2
        self.sym_lines = []

    # ---------------------------------------------------------------- symbols
    def make_symbols(self, n=4):
        """EQU/SET-defined symbols of all three types; names avoid the 68000 register names"""
        rng = self.rng
        for k in range(n):
            node = self.int_lit(rng.choice(BOUNDARY_INTS) if rng.random() < 0.6 else self.rand_int())
            name = 'vint%d' % k
            self.sym_lines.append('%s\t%s\t%s' % (name, rng.choice(['equ', 'set']), node.text))
            self.syms['i'].append((name, node.val))
            node = flit(rng.choice(BOUNDARY_FLOATS))
            name = 'vflt%d' % k
            self.sym_lines.append('%s\tequ\t%s' % (name, node.text))
            self.syms['f'].append((name, node.val))
            node = self.str_lit()
            name = 'vstr%d' % k
            self.sym_lines.append('%s\tequ\t%s' % (name, node.text))
            self.syms['s'].append((name, node.val))
        return self.sym_lines

    def sym(self, t):
        ent = self.rng.choice(self.syms[t])
        name, val = ent[0], ent[1]
        if len(ent) > 2:
            # parameter of a user-defined function: spelled exactly as declared
            return Node('sym', text=name, val=val, meta=ent[2])
        # "AS is by default not case-sensitive"
        r = self.rng.random()
        if r < 0.2:
            name = name.upper()
        elif r < 0.3:
            name = name.capitalize()
        return Node('sym', text=name, val=val)

    # ---------------------------------------------------------------- leaves
    def rand_int(self):
        rng = self.rng
        r = rng.random()
        if r < 0.35:
            return rng.randrange(-20, 70)
        if r < 0.55:
            k = rng.randrange(64)
            v = (1 << k) + rng.choice([-1, 0, 0, 1])
            if rng.random() < 0.3:
                v = -v
            return E.s64(v)
        if r < 0.75:
            return E.s64(rng.getrandbits(64))
        if r < 0.9:
            return rng.randrange(-70000, 70000)
        return rng.choice(BOUNDARY_INTS)

    def int_lit(self, v):
        """integer constant in Motorola syntax (68000 default): decimal, $hex, %bin, @oct.
        Constants above 2^63-1 are not generated (the manual does not say how they wrap)."""
        rng = self.rng
        if v == IMIN:
            return Node('lit', text='(-9223372036854775807-1)', val=('i', v))
        if v < 0:
            return Node('lit', text='(-%d)' % -v, val=('i', v))
        r = rng.random()
        if r < 0.55:
            t = '%d' % v
        elif r < 0.8:
            t = '$%x' % v if rng.random() < 0.5 else '$%X' % v
        elif r < 0.9 and v < (1 << 24):
            t = '%' + bin(v)[2:]
        elif r < 0.97:
            t = '@%o' % v
        else:
            t = '%d' % v
        return Node('lit', text=t, val=('i', v))

    def small_int(self, lo, hi):
        v = self.rng.randrange(lo, hi + 1)
        return self.int_lit(v)

    def str_bytes(self, maxlen=10, minlen=0):
        """returns (source text between the quotes, bytes)"""
        rng = self.rng
        n = rng.randrange(minlen, maxlen + 1)
        src, out = [], []
        for _ in range(n):
            r = rng.random()
            if r < 0.8:
                c = rng.choice(SAFE_CHARS)
                src.append(c)
                out.append(ord(c))
            elif r < 0.96 or not self.high_chars:
                s, c = rng.choice(ESCAPES)
                src.append(s)
                out.append(c)
            else:
                s, c = rng.choice(HIGH_ESCAPES)
                src.append(s)
                out.append(c)
        # a numeric escape swallows following digits (three decimal, 0 + three octal, two hex):
        # a plain character that could extend the escape before it is written as \xNN itself
        text = ''
        for i, el in enumerate(src):
            if len(el) == 1 and _numeric_escape_open(text) and el in '0123456789abcdefABCDEF':
                el = '\\x%02x' % out[i]
            text += el
        return text, bytes(out)

    def str_lit(self, maxlen=10, minlen=0, quote=None):
        text, b = self.str_bytes(maxlen, minlen)
        q = quote or '"'
        return Node('lit', text=q + text + q, val=('s', b), meta='str')

    def char_const(self):
        """1..4 character constant used where an integer is expected"""
        n = self.rng.choice([1, 1, 1, 2, 3, 4])
        q = self.rng.choice(['"', "'"])
        return self.str_lit(maxlen=n, minlen=n, quote=q)

    def leaf(self, t, allow_char=False):
        rng = self.rng
        if self.syms[t] and rng.random() < self.sym_prob:
            return self.sym(t)
        if t == 'i':
            if allow_char and rng.random() < 0.12:
                return self.char_const()
            return self.int_lit(self.rand_int())
        if t == 'f':
            if rng.random() < 0.6:
                return flit(rng.choice(BOUNDARY_FLOATS))
            m = rng.randrange(1, 100000)
            e = rng.randrange(-4, 6)
            txt = '%d.%d' % (m // 100, m % 100)
            if rng.random() < 0.3:
                txt += rng.choice(['E', 'e']) + str(e)
            if e < 0 and 'E' in txt.upper():
                txt = '(' + txt + ')'       # see LEX_PROBES in the check: exponent sign inside a formula
            if rng.random() < 0.3:
                txt = '(-' + txt.strip('()') + ')'
            return flit(txt)
        return self.str_lit()

    # ---------------------------------------------------------------- inner nodes
    def bin(self, op, l, r):
        val, approx = E.apply_bin(op, l.val, r.val)
        if l.approx or r.approx:
            raise Silent('approximate operand')
        return Node('bin', op, [l, r], val=val, approx=approx)

    def un(self, op, k):
        val, approx = E.apply_un(op, k.val)
        if k.approx:
            raise Silent('approximate operand')
        return Node('un', op, [k], val=val)

    def call(self, name, kids):
        for k in kids:
            if k.approx:
                raise Silent('approximate operand')
        val, approx = E.apply_func(name, [k.val for k in kids])
        r = self.rng.random()
        spelled = name if r < 0.4 else (name.lower() if r < 0.8 else name.capitalize())
        return Node('call', name, kids, val=val, approx=approx, meta=spelled)

    def gen(self, t, d, root=False):
        """random tree of type t with depth <= d"""
        rng = self.rng
        if d <= 1 or rng.random() < 0.12:
            return self.leaf(t)
        for _ in range(12):
            try:
                n = self._op(t, d, root)
            except (Silent, Undefined, IllTyped):
                continue
            if n is not None:
                return n
        return self.leaf(t)

    def _num(self, d):
        """int or float subtree"""
        return self.gen('f' if self.rng.random() < 0.35 else 'i', d)

    def _int_operand(self, d):
        if d <= 1 or self.rng.random() < 0.25:
            return self.leaf('i', allow_char=True)
        return self.gen('i', d)

    def _op(self, t, d, root):
        rng = self.rng
        d1 = d - 1
        d2 = rng.randrange(1, d)          # the other branch is shallower on average
        if rng.random() < 0.5:
            da, db = d1, d2
        else:
            da, db = d2, d1
        if t == 'i':
            k = rng.random()
            if k < 0.28:
                op = rng.choice(['+', '-', '*', '+', '-', '*', '/', '#', '^'])
                l = self._int_operand(da) if op != '+' else self.gen('i', da)
                if op == '+':
                    r = self.gen('i', db)
                elif op == '^':
                    r = self.small_int(0, 70) if rng.random() < 0.8 else self._int_operand(db)
                elif op in ('/', '#'):
                    r = self._int_operand(db)
                    if rng.random() < 0.15:
                        r = self.int_lit(rng.choice([-1, 1, 2, -2, 3, 10, 16, 256, IMIN, IMAX]))
                    if op == '#' and rng.random() < 0.6:
                        # non-negative dividend, positive divisor: build them
                        l = self.call('ABS', [l]) if l.val[0] == 'i' and IMIN < l.val[1] < 0 else l
                else:
                    r = self._int_operand(db)
                return self.bin(op, l, r)
            if k < 0.48:
                op = rng.choice(['&', '|', '!', '<<', '>>', '><'])
                if op == '>>' and getattr(self, 'no_shr', False):
                    # (inside user-function formulas the sign of a parameter is only known per call: the open finding on `>>` with a
                    # negative operand would surface under a user-function key; `>>` is covered by the plain expression cases)
                    op = '<<'
                l = self._int_operand(da)
                if op in ('<<', '>>'):
                    r = self.small_int(0, 63) if rng.random() < 0.75 else self._int_operand(db)
                elif op == '><':
                    r = self.small_int(1, 32) if rng.random() < 0.8 else self._int_operand(db)
                else:
                    r = self._int_operand(db)
                return self.bin(op, l, r)
            if k < 0.66:
                op = rng.choice(E.CMP_OPS)
                m = rng.random()
                if m < 0.45:
                    l, r = self._int_operand(da), self._int_operand(db)
                    if l.val[0] == 's' and r.val[0] == 's':
                        r = self.int_lit(self.rand_int())
                    if rng.random() < 0.25:
                        lv = E.str2int(l.val[1]) if l.val[0] == 's' else l.val[1]
                        r = self.int_lit(E.s64(lv + rng.choice([-1, 0, 0, 1])))
                elif m < 0.7:
                    l, r = self.gen('f', da), self.gen('f', db)
                    if rng.random() < 0.2:
                        r = l
                elif m < 0.85:
                    l, r = self.gen('f', da), self.gen('i', db)
                    if rng.random() < 0.5:
                        l, r = r, l
                else:
                    l = self.gen('s', da)
                    r = l if rng.random() < 0.4 else self.gen('s', db)
                    if l.val[1] != r.val[1] and op not in ('=', '==', '<>', '!='):
                        # no collating order is documented: trichotomy instead —
                        # exactly one of a<b, a>b holds for different strings
                        return self._trichotomy(l, r)
                return self.bin(op, l, r)
            if k < 0.76:
                op = rng.choice(['&&', '||', '!!'])
                return self.bin(op, self._int_operand(da), self._int_operand(db))
            if k < 0.84:
                op = rng.choice(['~', '~~'])
                return self.un(op, self._int_operand(d1))
            return self._int_func(d1)
        if t == 'f':
            k = rng.random()
            if root and k < 0.10:
                # libm results are compared with a tolerance and are never fed into other operators
                name = rng.choice(E.TRANSCENDENTAL)
                return self.call(name, [self._transc_arg(name, d1)])
            if root and k < 0.18:
                l = self._num(da)
                r = self._num(db) if rng.random() < 0.4 else (
                    flit(rng.choice(['2.0', '3.0', '(-1.0)', '(-2.0)', '0.5', '5.0', '4.0', '(-3.0)', '1.0', '7.0'])))
                if l.val[0] == 'i' and r.val[0] == 'i':
                    r = flit('2.0')
                return self.bin('^', l, r)
            if k < 0.80:
                op = rng.choice(['+', '-', '*', '/'])
                m = rng.random()
                if m < 0.6:
                    l, r = self.gen('f', da), self.gen('f', db)
                elif m < 0.8:
                    l, r = self.gen('f', da), self.gen('i', db)
                else:
                    l, r = self.gen('i', da), self.gen('f', db)
                return self.bin(op, l, r)
            if k < 0.88:
                return self.call('ABS', [self.gen('f', d1)])
            if k < 0.92:
                return self._int_func(d1, force='VAL', vt='f')
            x = self._num(d1)
            if x.val[1] < 0:
                x = self.call('ABS', [x])
            return self.call('SQRT', [x])
        # strings
        k = rng.random()
        if k < 0.45:
            return self.bin('+', self.gen('s', da), self.gen('s', db))
        if k < 0.6:
            return self.call(rng.choice(['UPSTRING', 'LOWSTRING']), [self.gen('s', d1)])
        s = self.gen('s', d1)
        n = len(s.val[1])
        start = self._pos_arg(n, db)
        cnt = self._cnt_arg(n, db)
        return self.call('SUBSTR', [s, start, cnt])

    def _trichotomy(self, l, r):
        """two different strings: exactly one of a<b / a>b holds, and exactly one of a<=b / a>=b"""
        if l.approx or r.approx or l.val[0] != 's' or r.val[0] != 's' or l.val[1] == r.val[1]:
            raise Silent('trichotomy needs two different strings')
        ops = self.rng.choice([('<', '>'), ('<=', '>='), ('>', '<'), ('<', '>=')])
        return Node('tri', ops, [l, r], val=('i', 1))

    def _pos_arg(self, n, d):
        rng = self.rng
        r = rng.random()
        if r < 0.6:
            return self.int_lit(rng.choice([0, 0, 1, 2, max(0, n - 1), n, n + 1, max(0, n // 2)]))
        if r < 0.8:
            return self.int_lit(rng.choice([-1, -2, -5, -100, -(1 << 31), -(1 << 32), IMIN, 100, 255, 256, (1 << 31) - 1,
                                            1 << 31, (1 << 32) - 1, 1 << 32, (1 << 32) + 1, 1 << 40, IMAX]))
        return self.gen('i', min(d, 3))

    def _cnt_arg(self, n, d):
        rng = self.rng
        r = rng.random()
        if r < 0.7:
            return self.int_lit(rng.choice([0, 0, 1, 1, 2, 3, max(0, n - 1), n, n + 1, 100]))
        if r < 0.85:
            return self.int_lit(rng.choice([255, 256, 65536, (1 << 31) - 1, 1 << 31, (1 << 32) - 1, 1 << 32, (1 << 32) + 1, IMAX]))
        for _ in range(5):
            x = self.gen('i', min(d, 3))
            if x.val[0] == 'i' and x.val[1] >= 0:
                return x
        return self.int_lit(1)

    def _int_func(self, d, force=None, vt='i'):
        rng = self.rng
        name = rng.choice(['BITCNT', 'FIRSTBIT', 'LASTBIT', 'BITPOS', 'SGN', 'ABS', 'TOUPPER', 'TOLOWER', 'STRLEN',
                           'CHARFROMSTR', 'STRSTR', 'EXPRTYPE', 'INT', 'VAL', 'SGN', 'STRLEN', 'CHARFROMSTR'])
        name = force or name
        if name in ('BITCNT', 'FIRSTBIT', 'LASTBIT', 'ABS'):
            return self.call(name, [self._int_operand(d)])
        if name == 'BITPOS':
            k = rng.randrange(64)
            if rng.random() < 0.5:
                return self.call(name, [self.int_lit(E.s64(1 << k))])
            return self.call(name, [self.bin('<<', self.int_lit(1), self.int_lit(k))])
        if name == 'SGN':
            return self.call(name, [self._num(d)])
        if name in ('TOUPPER', 'TOLOWER'):
            r = rng.random()
            if r < 0.4:
                return self.call(name, [self.int_lit(rng.randrange(0, 128))])
            if r < 0.7:
                return self.call(name, [self.str_lit(1, 1, quote=rng.choice(['"', "'"]))])
            x = self.gen('i', d)
            return self.call(name, [self.bin('&', x, self.int_lit(127))])
        if name == 'STRLEN':
            return self.call(name, [self.gen('s', d)])
        if name == 'CHARFROMSTR':
            s = self.gen('s', d)
            return self.call(name, [s, self._pos_arg(len(s.val[1]), d)])
        if name == 'STRSTR':
            h = self.gen('s', d)
            hb = h.val[1]
            if hb and rng.random() < 0.6:
                i = rng.randrange(len(hb))
                j = rng.randrange(i + 1, len(hb) + 1)
                nd = self._bytes_lit(hb[i:j])
            else:
                nd = self.str_lit(3, 1)
            return self.call(name, [h, nd])
        if name == 'EXPRTYPE':
            return self.call(name, [self.gen(rng.choice('ifs'), d)])
        if name == 'INT':
            x = self.gen('f', d)
            val, _ = E.apply_func('INT', [x.val])
            call = Node('call', 'INT', [x], val=val, meta=rng.choice(['INT', 'int', 'Int']))
            lit = self.int_lit(val[1] + rng.choice([0, 0, 0, 1, -1]))
            return self.bin(rng.choice(['=', '==', '<>']), call, lit)
        if name == 'VAL':
            x = self.gen(vt, min(d, 3))
            txt = E.render(x, rng.choice(['full', 'min']))
            if '"' in txt or "'" in txt or '\\' in txt or len(txt) > 60:
                raise Silent('quoting inside VAL')
            spelled = rng.choice(['VAL', 'val'])
            return Node('call', 'VAL', [x], text='%s("%s")' % (spelled, txt), val=x.val, approx=x.approx, meta=spelled)
        raise AssertionError(name)

    def _bytes_lit(self, b):
        text = ''
        for c in b:
            ch = chr(c)
            if ch in SAFE_CHARS and not (text and _numeric_escape_open(text) and ch in '0123456789abcdefABCDEF'):
                text += ch
            else:
                text += '\\x%02x' % c
        # an \xNN escape takes at most two hex digits, so a following hex digit is a new character
        return Node('lit', text='"' + text + '"', val=('s', bytes(b)), meta='str')

    def _transc_arg(self, name, d):
        rng = self.rng
        r = rng.random()
        if r < 0.5:
            pool = ['0.5', '0.25', '1.0', '2.0', '(-0.5)', '3.0', '10.0', '0.1', '1.5', '(-1.0)', '0.75', '(-0.25)', '5.0', '0.9']
            return flit(rng.choice(pool))
        if r < 0.7:
            return self.small_int(-5, 20)
        return self._num(d)

    # ---------------------------------------------------------------- top level
    def expression(self, maxdepth=6):
        """one valid expression tree (model value defined) with rendered text <= 200 characters"""
        rng = self.rng
        for _ in range(30):
            t = rng.choice('iiiiiffs')
            d = rng.choice([2, 3, 3, 4, 4, 5, 5, 6, 6, 6]) if maxdepth >= 6 else rng.randrange(2, maxdepth + 1)
            n = self.gen(t, d, root=True)
            if n.kind in ('lit', 'sym') and rng.random() < 0.8:
                continue
            if len(E.render(n, 'full')) <= 200 and n.depth <= maxdepth:
                return n
        return self.leaf('i')


def _numeric_escape_open(text):
    """does text end in a numeric escape that a following digit could extend?"""
    i = text.rfind('\\')
    if i < 0:
        return False
    tail = text[i + 1:]
    if not tail:
        return False
    if tail[0] in 'xX':
        return len(tail) < 3 and all(c in '0123456789abcdefABCDEF' for c in tail[1:])
    if tail[0] == '0':
        return len(tail) < 4 and tail.isdigit()
    if tail[0].isdigit():
        return len(tail) < 3 and tail.isdigit()
    return False


# ---------------------------------------------------------------------------
# expected-error expressions

def error_expression(g):
    """returns (text, tag, why): an expression whose evaluation the manual defines as an error.
    tag names the operator/function and the kind of fault; it becomes part of the violation key
    if asl yields a value instead."""
    rng = g.rng
    for _ in range(50):
        kind = rng.choice(['div0', 'div0', 'mirror', 'illtyped-op', 'illtyped-op', 'illtyped-func', 'domain', 'domain', 'bitpos', 'pow'])
        try:
            if kind == 'div0':
                op = rng.choice(['/', '/', '#'])
                zero = rng.choice(['0', '$0', '(3-3)', 'strlen("")', '(vint0-vint0)', '%0', '(0*7)'])
                zv = ('i', 0)
                l = g.gen('i', 2)
                if op == '/' and rng.random() < 0.4:
                    l = g.gen('f', 2)
                    zero = rng.choice(['0.0', '(1.5-1.5)', '0', '(0.0*2.0)'])
                    zv = ('f', 0.0) if '.' in zero else ('i', 0)
                bad = Node('bin', op, [l, Node('lit', text=zero, val=zv)])
                _expect_error(lambda: E.apply_bin(op, l.val, zv), Undefined)
                tag = '%s:by-zero:%s' % (op, l.val[0] + zv[0])
            elif kind == 'mirror':
                l = g.gen('i', 2)
                c = rng.choice([0, 33, 34, 64, -1, 100, 1 << 32])
                r = g.int_lit(c)
                _expect_error(lambda: E.apply_bin('><', l.val, r.val), Undefined)
                bad = Node('bin', '><', [l, r])
                tag = '><:count-%s' % ('0' if c == 0 else ('neg' if c < 0 else 'above-32'))
            elif kind == 'illtyped-op':
                if rng.random() < 0.25:
                    op = rng.choice(['~', '~~'])
                    k = g.gen('f', 2)
                    _expect_error(lambda: E.apply_un(op, k.val), IllTyped)
                    bad = Node('un', op, [k])
                    tag = '%s:float-operand' % op
                else:
                    op = rng.choice(E.INT_ONLY)
                    l, r = g.gen('f', 2), g.gen(rng.choice('if'), 2)
                    if op in ('<<', '>>', '><') and r.val[0] == 'i':
                        r = g.small_int(1, 8)
                    side = 'left'
                    if rng.random() < 0.5:
                        l, r = r, l
                        side = 'right' if l.val[0] == 'i' else 'both'
                    elif r.val[0] == 'f':
                        side = 'both'
                    _expect_error(lambda: E.apply_bin(op, l.val, r.val), IllTyped)
                    bad = Node('bin', op, [l, r])
                    tag = '%s:float-operand-%s' % (op, side)
            elif kind == 'illtyped-func':
                name = rng.choice(['BITCNT', 'FIRSTBIT', 'LASTBIT', 'BITPOS', 'TOUPPER', 'TOLOWER', 'STRLEN', 'UPSTRING',
                                   'LOWSTRING', 'SUBSTR', 'CHARFROMSTR', 'STRSTR', 'VAL'])
                sig = E.FUNCS[name]
                pos = rng.randrange(len(sig))
                kids = []
                for i, k in enumerate(sig):
                    if i != pos:
                        kids.append(g.str_lit(6, 1) if k == 's' else g.small_int(0, 3))
                    elif k == 's':
                        kids.append(g.gen(rng.choice('if'), 2))
                    else:
                        kids.append(g.gen('f', 2))
                _expect_error(lambda: E.apply_func(name, [k.val for k in kids]), IllTyped)
                bad = Node('call', name, kids, meta=rng.choice([name, name.lower()]))
                tag = '%s:arg%d-is-%s' % (name, pos + 1, kids[pos].val[0])
            elif kind == 'domain':
                name, args = rng.choice([
                    ('SQRT', ['(-1.0)', '(-0.5)', '(-4)', '(0-2.25)', '(-1.0E10)']),
                    ('LN', ['0', '0.0', '(-1.0)', '(-3)']), ('LOG', ['0', '0.0', '(-10.0)']), ('LD', ['0.0', '(-2)', '(-8.0)']),
                    ('ASIN', ['2.0', '(-1.5)', '1.0001', '3']), ('ACOS', ['1.5', '(-2.0)', '(-1.25)', '10']),
                    ('ACOSH', ['0.5', '0', '0.0', '(-1.0)', '0.999']), ('ATANH', ['1.0', '1', '2.5', '100.0']),
                    ('ACOTH', ['1.0', '1', '0.5', '0.0', '0', '(-0.5)']), ('COT', ['0', '0.0']), ('COTH', ['0', '0.0'])])
                txt = rng.choice(args)
                v = ('f', float(txt.strip('()')) if not txt.startswith('(0-') else -2.25)
                _expect_error(lambda: E.apply_func(name, [v]), Undefined)
                bad = Node('call', name, [Node('lit', text=txt, val=v)], meta=rng.choice([name, name.lower()]))
                tag = '%s:outside-domain' % name
            elif kind == 'bitpos':
                v = rng.choice([0, 3, 5, 6, -1, -2, 255, IMAX, 0x8001, (1 << 63) - (1 << 62), 1 + (1 << 40)])
                if rng.random() < 0.3:
                    v = rng.getrandbits(64) | 3
                lit = g.int_lit(E.s64(v))
                _expect_error(lambda: E.apply_func('BITPOS', [lit.val]), Undefined)
                bad = Node('call', 'BITPOS', [lit], meta=rng.choice(['BITPOS', 'bitpos']))
                tag = 'BITPOS:%s' % ('no-bit' if v == 0 else 'several-bits')
            else:
                base = flit(rng.choice(['(-2.0)', '(-1.0)', '(-0.5)', '(-8.0)', '(-1.0E10)']))
                ex = flit(rng.choice(['0.5', '1.5', '(-0.5)', '2.5', '0.25', '(-1.5)']))
                _expect_error(lambda: E.apply_bin('^', base.val, ex.val), Undefined)
                bad = Node('bin', '^', [base, ex])
                tag = '^:negative-base-fractional-exponent'
        except (Silent, _NoError):
            continue
        text = E.render(bad, 'full')
        w = rng.random()
        if w < 0.5:
            pass
        elif w < 0.6:
            text = '1+(%s)' % text
        elif w < 0.7:
            text = '(%s)*2' % text
        elif w < 0.8:
            text = 'exprtype(%s)' % text
        elif w < 0.9:
            text = '((%s)=0)||1' % text
        else:
            text = 'sgn(%s)' % text
        if len(text) <= 200:
            return text, tag, kind
    raise RuntimeError('error generator exhausted')


class _NoError(Exception):
    pass


def _expect_error(fn, exc):
    try:
        fn()
    except exc:
        return
    except (Undefined, IllTyped):
        raise _NoError()
    raise _NoError()


# ---------------------------------------------------------------------------
# bit/string functions over boundary arguments

BIT_ARGS = sorted(set(BOUNDARY_INTS + [E.s64(1 << k) for k in range(64)] + [E.s64((1 << k) + 1) for k in range(1, 64)] +
                      [E.s64((1 << k) - 1) for k in range(1, 64)] + [E.s64(-(1 << k)) for k in range(64)] +
                      [E.s64(5 << k) for k in range(62)] + [6, 9, 10, 12, 13, 20, 24, 40, 96, 4097]))
STR_POOL = [b'', b'a', b'ab', b'hello', b'Hello, World', b'0123456789', b'aaa', b'abcabc', b'x' * 31, b'MiXeD cAsE 123 []',
            b'tab\there', b'\xc8\xff\x80', b'caf\xe9', b'a\xffb', b'~!@#$%^&*()']
POSITIONS = [IMIN, -(1 << 32) - 1, -(1 << 32), -(1 << 31) - 1, -(1 << 31), -65536, -256, -5, -2, -1, 0, 1, 2, 3, 4, 5, 10, 11, 12, 13,
             30, 31, 32, 100, 255, 256, 65535, 65536, (1 << 31) - 1, 1 << 31, (1 << 31) + 1, (1 << 32) - 1, 1 << 32, (1 << 32) + 1,
             (1 << 32) + 2, 1 << 33, 1 << 40, (1 << 63) - 1]
COUNTS = [0, 1, 2, 3, 4, 5, 6, 11, 12, 13, 31, 32, 100, 255, 256, 65536, (1 << 31) - 1, 1 << 31, (1 << 32) - 1, 1 << 32, (1 << 32) + 1,
          (1 << 32) + 3, 1 << 40, IMAX]


def function_points(g, n):
    """n function applications over boundary arguments: list of Node (value defined) and
    list of (text, tag, kind) for those the manual defines as errors"""
    rng = g.rng
    good, bad = [], []
    tries = 0
    while len(good) < n and tries < n * 10:
        tries += 1
        fam = rng.choice(['bit', 'bit', 'bit', 'substr', 'substr', 'charfromstr', 'charfromstr', 'strstr', 'case', 'strcase',
                          'strlen', 'sgnabs', 'exprtype', 'int', 'transc', 'sqrt'])
        try:
            if fam == 'bit':
                name = rng.choice(['BITCNT', 'FIRSTBIT', 'LASTBIT', 'BITPOS'])
                v = rng.choice(BIT_ARGS) if rng.random() < 0.8 else E.s64(rng.getrandbits(64) >> rng.randrange(64))
                node = g.call(name, [g.int_lit(v)])
            elif fam == 'substr':
                s = rng.choice(STR_POOL)
                kids = [g._bytes_lit(s), g.int_lit(rng.choice(POSITIONS + [len(s) - 1, len(s), len(s) + 1])),
                        g.int_lit(rng.choice(COUNTS + [max(0, len(s) - 1), len(s), len(s) + 1]))]
                node = g.call('SUBSTR', kids)
            elif fam == 'charfromstr':
                s = rng.choice(STR_POOL)
                node = g.call('CHARFROMSTR', [g._bytes_lit(s), g.int_lit(rng.choice(POSITIONS + [len(s) - 1, len(s), len(s) + 1]))])
            elif fam == 'strstr':
                s = rng.choice(STR_POOL)
                if s and rng.random() < 0.7:
                    i = rng.randrange(len(s))
                    nd = s[i:rng.randrange(i + 1, len(s) + 1)]
                else:
                    nd = rng.choice([b'zz', b'a', b'lo', b'abc', b'x' * 32, b'World!', b'9', b'\xff'])
                node = g.call('STRSTR', [g._bytes_lit(s), g._bytes_lit(nd)])
            elif fam == 'case':
                name = rng.choice(['TOUPPER', 'TOLOWER'])
                c = rng.randrange(128)
                kid = g.int_lit(c) if rng.random() < 0.6 or chr(c) not in SAFE_CHARS else Node(
                    'lit', text=rng.choice(['"%s"', "'%s'"]) % chr(c), val=('s', bytes([c])), meta='str')
                node = g.call(name, [kid])
            elif fam == 'strcase':
                node = g.call(rng.choice(['UPSTRING', 'LOWSTRING']), [g._bytes_lit(rng.choice(STR_POOL)) if rng.random() < 0.5 else g.str_lit(20)])
            elif fam == 'strlen':
                node = g.call('STRLEN', [g._bytes_lit(rng.choice(STR_POOL)) if rng.random() < 0.5 else g.str_lit(40)])
            elif fam == 'sgnabs':
                name = rng.choice(['SGN', 'ABS'])
                kid = g.int_lit(rng.choice(BIT_ARGS)) if rng.random() < 0.6 else flit(rng.choice(BOUNDARY_FLOATS))
                node = g.call(name, [kid])
            elif fam == 'exprtype':
                node = g.call('EXPRTYPE', [g.leaf(rng.choice('ifs'))])
            elif fam == 'int':
                node = g._int_func(2, force='INT')
            elif fam == 'sqrt':
                node = g.call('SQRT', [rng.choice([flit(rng.choice(BOUNDARY_FLOATS)), g.small_int(-4, 1000), g.int_lit(rng.choice(BIT_ARGS))])])
            else:
                name = rng.choice(E.TRANSCENDENTAL)
                x = rng.choice([-3.0, -2.0, -1.5, -1.0, -0.75, -0.5, -0.25, 0.0, 0.25, 0.5, 0.75, 0.9, 1.0, 1.25, 1.5, 2.0, 2.5, 3.0, 4.0, 5.0, 10.0, 20.0, 50.0])
                txt = repr(abs(x))
                kid = flit('(-%s)' % txt if x < 0 else txt)
                if x == int(x) and rng.random() < 0.3:
                    kid = g.int_lit(int(x))
                node = g.call(name, [kid])
            good.append(node)
        except Silent:
            continue
        except (Undefined, IllTyped):
            continue
    return good


# ---------------------------------------------------------------------------
# lexical probes: constants the manual documents, placed inside a formula

def lex_probes(g, n=8):
    """float constants with a negative exponent written without brackets next to an operator:
    '[-]<integer digits>[.post decimal positions][E[-]exponent]' is the documented form of a
    constant and constants are the components of formula expressions"""
    rng = g.rng
    out = []
    for _ in range(n):
        m = '%d.%d' % (rng.randrange(1, 50), rng.randrange(0, 100))
        c = flit('%s%s-%d' % (m, rng.choice('eE'), rng.randrange(1, 9)))
        other = flit(rng.choice(['2.0', '1.5', '10.0', '0.5'])) if rng.random() < 0.6 else g.small_int(1, 9)
        op = rng.choice(['*', '+', '-', '/'])
        l, r = (c, other) if rng.random() < 0.5 else (other, c)
        out.append(g.bin(op, l, r))
    return out


# ---------------------------------------------------------------------------
# integer notations x RADIX x INTSYNTAX / RELAXED

NOTATIONS = ['0xhex', '0bbin', '$hex', '%bin', '@oct', 'hexh', 'binb', 'octo', 'octq', "h'hex'", "x'hex'", "b'bin'", "o'oct'", '0oct', '0hex']
FAMILY = {'moto': ['$hex', '%bin', '@oct'], 'intel': ['hexh', 'binb', 'octo', 'octq'], 'c': ['0xhex', '0bbin', '0oct'],
          'ibm': ["h'hex'", "x'hex'", "b'bin'", "o'oct'"]}
# target -> family of its default syntax (doc/pseudo-instructions-and-integer-syntax.md)
CPU_SYNTAX = {'68000': 'moto', '6809': 'moto', '6502': 'moto', 'z80': 'intel', '8086': 'intel', '8051': 'intel',
              'ppc403': 'c', 'mn1610': 'ibm'}
DIGITS = '0123456789abcdefghijklmnopqrstuvwxyz'


def to_base(v, b):
    if v == 0:
        return '0'
    s = ''
    while v:
        s = DIGITS[v % b] + s
        v //= b
    return s


def _rcase(rng, s):
    r = rng.random()
    return s.upper() if r < 0.4 else (s if r < 0.8 else ''.join(c.upper() if rng.random() < 0.5 else c for c in s))


def notation_token(rng, v, radix, enabled):
    """(token, expected value, notation label) or None when no unambiguous spelling was drawn"""
    lead0 = '0oct' in enabled or '0hex' in enabled      # a leading zero carries meaning
    chex, cbin = '0xhex' in enabled, '0bbin' in enabled
    choice = rng.choice(sorted(enabled) + ['radix', 'radix'])
    dig = lambda c: DIGITS.index(c)

    def eaten(letter):
        return radix > dig(letter)

    def murky_b():
        return 12 <= radix <= 15       # "you cannot write binary constants anymore after a RADIX 16": 12..15 not spelled out

    if choice == '$hex':
        return '$' + _rcase(rng, to_base(v, 16)), v, choice
    if choice == '%bin':
        return '%' + to_base(v, 2), v, choice
    if choice == '@oct':
        return '@' + to_base(v, 8), v, choice
    if choice in ("h'hex'", "x'hex'", "b'bin'", "o'oct'"):
        base = {'h': 16, 'x': 16, 'b': 2, 'o': 8}[choice[0]]
        letter = choice[0].upper() if rng.random() < 0.5 else choice[0]
        return "%s'%s'" % (letter, _rcase(rng, to_base(v, base))), v, choice
    if choice in ('hexh', 'binb', 'octo', 'octq'):
        base = {'hexh': 16, 'binb': 2, 'octo': 8, 'octq': 8}[choice]
        letter = choice[-1]
        d = to_base(v, base)
        if not d[0].isdigit():
            d = '0' + d
        tok = d + letter
        if tok[0] == '0' and lead0:
            return None
        if tok[0] == '0' and len(tok) > 1 and ((tok[1] == 'x' and chex) or (tok[1] == 'b' and cbin)):
            return None
        if letter == 'b' and murky_b():
            return None
        if eaten(letter):
            return _rcase(rng, tok), int(tok, radix), choice + '-eaten'
        return _rcase(rng, tok), v, choice
    if choice in ('0xhex', '0bbin'):
        base = 16 if choice == '0xhex' else 2
        letter = choice[1]
        tok = '0' + letter + to_base(v, base)
        if letter == 'b' and murky_b():
            return None
        if eaten(letter):
            if lead0:
                return None
            # the last character may now be a live Intel suffix
            if _live_intel_suffix(tok[-1], radix, enabled):
                return None
            return _rcase(rng, tok), int(tok, radix), choice + '-eaten'
        if _live_intel_suffix(tok[-1], radix, enabled):
            return None
        return _rcase(rng, tok), v, choice
    if choice == '0oct':
        tok = '0' + to_base(v, 8)
        return tok, v, choice
    if choice == '0hex':
        tok = '0' + to_base(v, 16)
        if _live_intel_suffix(tok[-1], radix, enabled) or (len(tok) > 1 and ((tok[1] == 'x' and chex) or (tok[1] == 'b' and cbin))):
            return None
        return _rcase(rng, tok), v, choice
    # default radix
    tok = to_base(v, radix)
    label = 'radix'
    if not tok[0].isdigit():
        tok = '0' + tok
    elif rng.random() < 0.15:
        tok = '0' * rng.randrange(1, 3) + tok          # "superfluous" leading zeroes
        label = 'radix-leading-zero'
    if tok[0] == '0' and len(tok) > 1:
        if lead0:
            return None
        if (tok[1] == 'x' and chex) or (tok[1] == 'b' and cbin):
            return None
    if _live_intel_suffix(tok[-1], radix, enabled) or (tok[-1] == 'b' and 'binb' in enabled and murky_b()):
        return None
    return _rcase(rng, tok), v, label


def _live_intel_suffix(ch, radix, enabled):
    ch = ch.lower()
    for nm in ('hexh', 'binb', 'octo', 'octq'):
        if nm in enabled and nm[-1] == ch and radix <= DIGITS.index(ch):
            return True
    return False


def notation_case(rng, n=120):
    """returns (header lines, [(symbol, token, expected, label)], description)"""
    cpu = rng.choice(sorted(CPU_SYNTAX))
    fam = CPU_SYNTAX[cpu]
    enabled = set(FAMILY[fam])
    lines = ['\tcpu\t%s' % cpu]
    relaxed = rng.random() < 0.3
    mods = []
    if relaxed:
        # "in relaxed mode, all notations may be used"
        lines.append('\trelaxed\ton')
        for f in FAMILY.values():
            enabled.update(f)
    elif rng.random() < 0.6:
        for _ in range(rng.randrange(1, 5)):
            nm = rng.choice(NOTATIONS)
            if rng.random() < 0.7:
                if nm == '0hex' and '0oct' in enabled or nm == '0oct' and '0hex' in enabled:
                    other = '0oct' if nm == '0hex' else '0hex'
                    mods.append('-' + other)
                    enabled.discard(other)
                mods.append('+' + nm)
                enabled.add(nm)
            else:
                mods.append('-' + nm)
                enabled.discard(nm)
        # one INTSYNTAX statement per modification keeps the order of application explicit
        for m in mods:
            lines.append('\tintsyntax\t%s' % m)
    r = rng.random()
    radix = 10 if r < 0.25 else (rng.choice([2, 8, 16]) if r < 0.45 else rng.randrange(2, 37))
    if radix != 10 or rng.random() < 0.3:
        lines.append('\tradix\t%d' % radix)
    items = []
    tries = 0
    while len(items) < n and tries < n * 6:
        tries += 1
        q = rng.random()
        if q < 0.4:
            v = rng.randrange(0, 300)
        elif q < 0.7:
            v = rng.getrandbits(rng.randrange(1, 64))
        elif q < 0.85:
            v = abs(rng.choice(BOUNDARY_INTS)) & IMAX
        else:
            v = (1 << rng.randrange(63)) - rng.choice([0, 1])
        t = notation_token(rng, v, radix, enabled)
        if t is None:
            continue
        tok, exp, label = t
        if exp > IMAX:
            continue
        items.append(('n%d' % len(items), tok, exp, label))
    desc = {'cpu': cpu, 'relaxed': relaxed, 'intsyntax': mods, 'radix': radix}
    return lines, items, desc


# ---------------------------------------------------------------------------
# user-defined functions: values that travel through FUNCTION must come out bit-identical to
# the same formula written inline

PARAM_NAMES = ['pqa', 'pqb', 'pqc']     # no '.' or '_' ("stricter rules for macro parameter names");
#                                         chosen so that they are not part of any built-in name, hex digit or symbol used


def dense_float(rng):
    """literal whose 53 mantissa bits are all significant (needs 17 decimal digits)"""
    import struct
    r = rng.random()
    if r < 0.6:
        e = rng.randrange(1023 - 40, 1023 + 40)
    elif r < 0.8:
        e = rng.randrange(1023 + 700, 1023 + 950)
    else:
        e = rng.randrange(1023 - 950, 1023 - 700)
    bits = (e << 52) | rng.getrandbits(52) | 1
    x = struct.unpack('>d', struct.pack('>Q', bits))[0]
    t = repr(x)
    if 'e' in t:
        m, ex = t.split('e')
        t = m + rng.choice('eE') + str(int(ex))
    neg = rng.random() < 0.3
    if neg:
        t = '-' + t
    if neg or '-' in t:
        t = '(' + t + ')'          # sign / exponent sign next to an operator: always bracketed
    return flit(t)


def ufunc_arg(g, t, linear=False):
    """actual argument of type t for a user-defined function"""
    rng = g.rng
    if t == 'f':
        r = rng.random()
        if linear and r < 0.3:
            # results of libm: only into formulas that merely add/double them
            name = rng.choice(['SIN', 'COS', 'EXP', 'LN', 'ATAN', 'SINH', 'LD', 'TANH'])
            return g.call(name, [flit(rng.choice(['0.5', '2.0', '0.1', '1.5', '3.0', '0.75', '10.0']))])
        if linear and r < 0.4:
            return g.bin('^', flit(rng.choice(['2.0', '3.0', '10.0', '0.7'])), flit(rng.choice(['0.5', '0.3', '1.7', '(-0.5)'])))
        if r < 0.55:
            return dense_float(rng)
        if r < 0.7:
            a, b = dense_float(rng), dense_float(rng)
            return g.bin(rng.choice(['+', '-', '*', '/']), a, b)
        if r < 0.85:
            txt = rng.choice([('+', '0.1', '0.2'), ('/', '1.0', '3.0'), ('/', '2.0', '3.0'), ('*', '0.1', '3.0'), ('/', '1.0', '7.0'),
                              ('*', '0.0', '(-1.0)'), ('/', '(1.0E-280)', '3.0'), ('*', '1.0E280', '3.3'), ('/', '(-1.0)', '3.0'),
                              ('-', '0.3', '0.1'), ('/', '22.0', '7.0'), ('*', '(1.0E-200)', '(1.0E-85)'), ('/', '0.0', '(-2.0)')])
            return g.bin(txt[0], flit(txt[1]), flit(txt[2]))
        if r < 0.92:
            x = rng.choice([flit('2.0'), flit('3.0'), flit('0.1'), g.small_int(2, 99), dense_float(rng)])
            return g.call('SQRT', [x if x.val[1] >= 0 else g.call('ABS', [x])])
        return g.gen('f', 3)
    if t == 'i':
        r = rng.random()
        if r < 0.45:
            return g.int_lit(rng.choice([IMIN, IMIN + 1, IMAX, IMAX - 1, -1, 0, 1, 1 << 62, -(1 << 62), (1 << 63) - (1 << 10), 1 << 32,
                                         -(1 << 32), (1 << 53) + 1, -(1 << 53) - 1, 0x7FFFFFFF, -0x80000000]))
        if r < 0.7:
            return g.int_lit(g.rand_int())
        return g.gen('i', 3)
    r = rng.random()
    if r < 0.7:
        return g.str_lit(12)
    if r < 0.8:
        return g._bytes_lit(rng.choice([b'', b'"', b"'", b'\\', b'a"b\'c\\d', b'\n', b'\t5', b'\r\n', b'\x1b[0m', b'\x07' + b'7', b'\xc8', b'\xff\x80',
                                        b',', b'a,b', b'(', b')', b';x', b'\\"']))
    return g.gen('s', 2)


def _body_ok(body, pnames, nparams):
    used = set()
    for s in body.subtrees():
        if s.kind == 'call' and s.op == 'VAL':
            return False          # parameter names inside a quoted formula: textual insertion, not described
        if s.kind == 'lit' and s.val[0] == 's' and any(p in s.text.lower() for p in pnames):
            return False          # parameter name inside a string constant: not described either
        if s.kind == 'sym' and isinstance(s.meta, tuple):
            used.add(s.meta[1])
    return len(used) == nparams and len(E.render(body, 'full')) <= 180 and not body.approx


def _use_all(g, body, params, ptypes):
    """let every parameter occur in the formula"""
    used = {s.meta[1] for s in body.subtrees() if s.kind == 'sym' and isinstance(s.meta, tuple)}
    for i, p in enumerate(params):
        if i in used:
            continue
        bt, pt = body.val[0], ptypes[i]
        if bt == 's' and pt == 's':
            body = g.bin('+', body, p)
        elif bt == 's':
            body = g.bin('+', g.call('STRLEN', [body]), p) if pt == 'i' else g.bin('*', g.call('STRLEN', [body]), p)
        elif pt == 's':
            body = g.bin('+', body, g.call('STRLEN', [p]))
        else:
            body = g.bin(g.rng.choice(['+', '-', '*']), body, p)
    return body


def ufunc_suite(g, nfuncs=10, ncalls=260):
    """returns (list of UFunc, list of (call node, tree of the same formula written inline))"""
    rng = g.rng
    funcs = []
    saved = (g.syms, g.sym_prob)
    g.no_shr = True
    for k in range(nfuncs):
        name = 'uf%d' % k
        style = rng.choice(['ident', 'linear', 'tree', 'tree', 'tree', 'nest', 'nest']) if funcs else 'ident'
        n = 1 if style in ('ident', 'linear') else rng.choice([1, 2, 2, 3])
        ptypes = [rng.choice('ifffs') for _ in range(n)]
        pnames = PARAM_NAMES[:n]
        f = None
        for _ in range(40):
            try:
                samples = [ufunc_arg(g, t) for t in ptypes]
                params = [Node('sym', text=pnames[i], val=samples[i].val, meta=('param', i)) for i in range(n)]
                if style == 'ident':
                    body = params[0]
                elif style == 'linear':
                    ptypes = ['f']
                    p0 = Node('sym', text=pnames[0], val=('f', 1.5), meta=('param', 0))
                    body = g.bin('+', p0, p0) if rng.random() < 0.5 else g.bin('*', p0, flit(rng.choice(['2.0', '0.5', '4.0'])))
                else:
                    g.syms = {t: [(pnames[i], samples[i].val, ('param', i)) for i in range(n) if ptypes[i] == t] for t in 'ifs'}
                    g.sym_prob = 0.65
                    if style == 'tree':
                        body = g.gen(rng.choice(ptypes + ['i']), rng.choice([2, 3, 3, 4]))
                    else:
                        callee = rng.choice(funcs)
                        args = []
                        for t in (callee.ptypes or [rng.choice(ptypes)]):
                            a = g.gen(t, 2)
                            if a.val[0] != t:
                                raise Silent('type')
                            args.append(a)
                        body = ucall(callee, args)
                        if rng.random() < 0.5:
                            t = body.val[0]
                            other = g.gen(t, 2)
                            body = g.bin('+' if t == 's' else rng.choice(['+', '*', '-']), body, other)
                    g.syms, g.sym_prob = saved
                    body = _use_all(g, body, params, ptypes)
                if style in ('ident', 'linear') or _body_ok(body, pnames, n):
                    f = E.UFunc(name, pnames, tuple(ptypes), body, linear=style in ('ident', 'linear'))
                    if style == 'ident':
                        f.ptypes = None          # identity: any type
                    break
            except (Silent, Undefined, IllTyped):
                pass
            finally:
                g.syms, g.sym_prob = saved
        if f is None:
            p0 = Node('sym', text=pnames[0], val=('i', 0), meta=('param', 0))
            f = E.UFunc(name, pnames[:1], None, p0, linear=True)
        funcs.append(f)
    calls = []
    tries = 0
    while len(calls) < ncalls and tries < ncalls * 8:
        tries += 1
        f = rng.choice(funcs)
        try:
            ptypes = f.ptypes or [rng.choice('iffffs')]
            args = [ufunc_arg(g, t, linear=f.linear) for t in ptypes]
            if any(a.val[0] != t for a, t in zip(args, ptypes)):
                continue
            node = ucall(f, args)
            if rng.random() < 0.15:
                # the call as operand of an ordinary operator
                t = node.val[0]
                if t == 's':
                    node = g.bin('+', node, g.str_lit(4))
                elif not node.approx:
                    node = g.bin(rng.choice(['+', '*', '=', '<>']), node, args[0] if args[0].val[0] == t and not args[0].approx else g.leaf(t))
            text = E.render(node, 'full')
            inline = E.instantiate(node)
            if len(text) <= 200 and len(E.render(inline, 'full')) <= 200:
                calls.append((node, inline))
        except (Silent, Undefined, IllTyped):
            continue
    g.no_shr = False
    return funcs, calls


def ucall(f, args):
    val, approx = E.evaluate(f.body, [(a.val, a.approx) for a in args])
    return Node('ucall', f.name, args, val=val, approx=approx, meta=f)
