"""Reference encoder: Intel 4004 / 4040, from the Intel MCS-4 / MCS-40 data sheets' instruction tables.

Operand syntax is the one of AS (doc/processor-specific-hints.md "4004/4040": register pairs RnRm with n even,
m = n+1, hexadecimal digits; the golden test t_4004 additionally fixes RnP / decimal register numbers and the
JCN condition names z=4 nz=12 c=2 nc=10 t=1 nt=9 as synonyms of the numeric condition)."""
from .isa_common import Form, Int, Page, Choice

NAME = '4004'
UNIT = 1
PCSYM = '$'
ORG = 0x200
SPACE = (0, 0xfff)
CPUS = ('4004', '4040')
HDR = 0x3f
SLICE = 30
SLICE_THOROUGH = 6


def hexnum(v):
    return '0%xh' % v


def regs():
    o = []
    for i in range(16):
        o.append(('r%x' % i, i))
        if i >= 10:
            o.append(('r%d' % i, i))
    return o


def pairs():
    o = []
    for i in range(8):
        o.append(('r%xr%x' % (2 * i, 2 * i + 1), i))
        o.append(('r%dp' % i, i))
        if i >= 5:
            o.append(('r%dr%d' % (2 * i, 2 * i + 1), i))
    return o


BADPAIRS = ['r1r2', 'r0r2', 'r3r4', 'r8p', 'r1r0']
REG = lambda: Choice(regs(), bad=['r16'], name='reg')
PAIR = lambda: Choice(pairs(), bad=BADPAIRS, name='regpair')
# 4-bit data: AS takes 0..15; whether a negative number is a legal spelling of a 4-bit pattern is not stated, so
# negative values are not generated as legal, and only -9 (outside every reading) is demanded to be rejected
D4 = lambda: Int(0, 15, name='imm4', nohex=True, elo=-9)
D8 = lambda: Int(-128, 255, name='imm8')
A12 = lambda: Int(0, 4095, err_lo=False, name='addr12')
COND = lambda: Choice([('%d' % i, i) for i in range(16)] + [('z', 4), ('nz', 12), ('c', 2), ('nc', 10), ('t', 1), ('nt', 9)], bad=['16'], name='cond')

FIXED = {'nop': 0x00, 'wrm': 0xe0, 'wmp': 0xe1, 'wrr': 0xe2, 'wpm': 0xe3, 'wr0': 0xe4, 'wr1': 0xe5, 'wr2': 0xe6, 'wr3': 0xe7,
         'sbm': 0xe8, 'rdm': 0xe9, 'rdr': 0xea, 'adm': 0xeb, 'rd0': 0xec, 'rd1': 0xed, 'rd2': 0xee, 'rd3': 0xef,
         'clb': 0xf0, 'clc': 0xf1, 'iac': 0xf2, 'cmc': 0xf3, 'cma': 0xf4, 'ral': 0xf5, 'rar': 0xf6, 'tcc': 0xf7,
         'dac': 0xf8, 'tcs': 0xf9, 'stc': 0xfa, 'daa': 0xfb, 'kbp': 0xfc, 'dcl': 0xfd}
FIXED_4040 = {'hlt': 0x01, 'bbs': 0x02, 'lcr': 0x03, 'or4': 0x04, 'or5': 0x05, 'an6': 0x06, 'an7': 0x07, 'db0': 0x08, 'db1': 0x09,
              'sb0': 0x0a, 'sb1': 0x0b, 'ein': 0x0c, 'din': 0x0d, 'rpm': 0x0e}


def forms(cpu):
    F = []
    add = lambda t, f, e, **k: F.append(Form(t, f, e, **k))
    add('jcn {0},{1}', [COND(), Page(2, 256)], lambda v, pc: [0x10 | v[0], v[1] & 0xff])
    add('fim {0},{1}', [PAIR(), D8()], lambda v, pc: [0x20 | v[0] << 1, v[1] & 0xff])
    add('src {0}', [PAIR()], lambda v, pc: [0x21 | v[0] << 1])
    add('fin {0}', [PAIR()], lambda v, pc: [0x30 | v[0] << 1])
    add('jin {0}', [PAIR()], lambda v, pc: [0x31 | v[0] << 1])
    add('jun {0}', [A12()], lambda v, pc: [0x40 | v[0] >> 8, v[0] & 0xff])
    add('jms {0}', [A12()], lambda v, pc: [0x50 | v[0] >> 8, v[0] & 0xff])
    add('inc {0}', [REG()], lambda v, pc: [0x60 | v[0]])
    add('isz {0},{1}', [REG(), Page(2, 256)], lambda v, pc: [0x70 | v[0], v[1] & 0xff])
    add('add {0}', [REG()], lambda v, pc: [0x80 | v[0]])
    add('sub {0}', [REG()], lambda v, pc: [0x90 | v[0]])
    add('ld {0}', [REG()], lambda v, pc: [0xa0 | v[0]])
    add('xch {0}', [REG()], lambda v, pc: [0xb0 | v[0]])
    add('bbl {0}', [D4()], lambda v, pc: [0xc0 | v[0] & 15])
    add('ldm {0}', [D4()], lambda v, pc: [0xd0 | v[0] & 15])
    for m, op in FIXED.items():
        add(m, [], [op])
    if cpu == '4040':
        for m, op in FIXED_4040.items():
            add(m, [], [op])
    return F
