"""Reference encoder: MOS 6502, 65SC02, Rockwell/WDC 65C02 (R65C02 bit instructions), W65C02S.

Written from the MOS/Rockwell/WDC programming manuals' opcode matrices.
Short (zero page) forms are used whenever the address is 0..255 and the
instruction has a zero-page form for that index register (AS manual: addresses
in the directly addressable page are "automatically addressed via short
addressing modes").
"""
from .isa_common import Form, Int, Rel

NAME = '6502'
UNIT = 1
PCSYM = '*'
ORG = 0x1000
SPACE = (0, 0xffff)
CPUS = ('6502', '65sc02', '65c02', 'w65c02s')
HDR = 0x11


def hexnum(v):
    return '$%x' % v


IMM = lambda: Int(-128, 255, name='imm8')
ZP = lambda: Int(0, 255, err_lo=False, name='zp')          # negative addresses: manual silent
A16 = lambda: Int(0, 65535, err_lo=False, name='addr16')
A16L = lambda: Int(256, 65535, err_lo=False, err_hi=True, name='addr16')


def lo(v):
    return v & 0xff


def hi(v):
    return (v >> 8) & 0xff


def zp_or_abs(opz, opa):
    def enc(v, pc):
        a = v[0]
        if a < 256 and opz is not None:
            return [opz, a]
        return [opa, lo(a), hi(a)]
    return enc


def only_abs(op):
    return lambda v, pc: [op, lo(v[0]), hi(v[0])]


def only_zp(op):
    return lambda v, pc: [op, v[0]]


def rel8(op):
    def enc(v, pc):
        d = v[0] - (pc + 2)
        assert -128 <= d <= 127
        return [op, d & 0xff]
    return enc


GROUP1 = {'ora': 0x00, 'and': 0x20, 'eor': 0x40, 'adc': 0x60, 'sta': 0x80, 'lda': 0xa0, 'cmp': 0xc0, 'sbc': 0xe0}
SHIFTS = {'asl': 0x00, 'rol': 0x20, 'lsr': 0x40, 'ror': 0x60}
BRANCHES = {'bpl': 0x10, 'bmi': 0x30, 'bvc': 0x50, 'bvs': 0x70, 'bcc': 0x90, 'bcs': 0xb0, 'bne': 0xd0, 'beq': 0xf0}
IMPLIED = {'brk': 0x00, 'clc': 0x18, 'cld': 0xd8, 'cli': 0x58, 'clv': 0xb8, 'dex': 0xca, 'dey': 0x88, 'inx': 0xe8, 'iny': 0xc8,
           'nop': 0xea, 'pha': 0x48, 'php': 0x08, 'pla': 0x68, 'plp': 0x28, 'rti': 0x40, 'rts': 0x60, 'sec': 0x38, 'sed': 0xf8,
           'sei': 0x78, 'tax': 0xaa, 'tay': 0xa8, 'tsx': 0xba, 'txa': 0x8a, 'txs': 0x9a, 'tya': 0x98}


def forms(cpu):
    cmos = cpu != '6502'
    bitops = cpu in ('65c02', 'w65c02s')
    F = []
    add = lambda t, f, e: F.append(Form(t, f, e))
    for m, b in GROUP1.items():
        if m != 'sta':
            add(m + ' #{0}', [IMM()], lambda v, pc, b=b: [b | 0x09, lo(v[0])])
        add(m + ' {0}', [A16()], zp_or_abs(b | 0x05, b | 0x0d))
        add(m + ' {0},x', [A16()], zp_or_abs(b | 0x15, b | 0x1d))
        add(m + ' {0},y', [A16()], only_abs(b | 0x19))
        add(m + ' ({0},x)', [ZP()], only_zp(b | 0x01))
        add(m + ' ({0}),y', [ZP()], only_zp(b | 0x11))
        if cmos:
            add(m + ' ({0})', [ZP()], only_zp(b | 0x12))
    for m, b in SHIFTS.items():
        add(m, [], [b | 0x0a])
        add(m + ' a', [], [b | 0x0a])
        add(m + ' {0}', [A16()], zp_or_abs(b | 0x06, b | 0x0e))
        add(m + ' {0},x', [A16()], zp_or_abs(b | 0x16, b | 0x1e))
    add('inc {0}', [A16()], zp_or_abs(0xe6, 0xee))
    add('inc {0},x', [A16()], zp_or_abs(0xf6, 0xfe))
    add('dec {0}', [A16()], zp_or_abs(0xc6, 0xce))
    add('dec {0},x', [A16()], zp_or_abs(0xd6, 0xde))
    add('bit {0}', [A16()], zp_or_abs(0x24, 0x2c))
    add('jmp {0}', [A16()], only_abs(0x4c))
    # AS refuses JMP (xxFF) (NMOS page-wrap erratum, error 1900) on every CPU but the 65C02; the manual does not say
    # for which CPUs -> vectors ending in $FF are not generated
    add('jmp ({0})', [Int(0, 65535, err_lo=False, name='addr16', skip=lambda v: (v & 0xff) == 0xff)], only_abs(0x6c))
    add('jsr {0}', [A16()], only_abs(0x20))
    add('ldx #{0}', [IMM()], lambda v, pc: [0xa2, lo(v[0])])
    add('ldx {0}', [A16()], zp_or_abs(0xa6, 0xae))
    add('ldx {0},y', [A16()], zp_or_abs(0xb6, 0xbe))
    add('ldy #{0}', [IMM()], lambda v, pc: [0xa0, lo(v[0])])
    add('ldy {0}', [A16()], zp_or_abs(0xa4, 0xac))
    add('ldy {0},x', [A16()], zp_or_abs(0xb4, 0xbc))
    add('stx {0}', [A16()], zp_or_abs(0x86, 0x8e))
    add('stx {0},y', [ZP()], only_zp(0x96))          # no absolute,Y form: 256 must be rejected
    add('sty {0}', [A16()], zp_or_abs(0x84, 0x8c))
    if not cmos:
        add('sty {0},x', [ZP()], only_zp(0x94))      # no absolute,X form
    else:
        add('sty {0},x', [ZP()], only_zp(0x94))
    add('cpx #{0}', [IMM()], lambda v, pc: [0xe0, lo(v[0])])
    add('cpx {0}', [A16()], zp_or_abs(0xe4, 0xec))
    add('cpy #{0}', [IMM()], lambda v, pc: [0xc0, lo(v[0])])
    add('cpy {0}', [A16()], zp_or_abs(0xc4, 0xcc))
    for m, op in BRANCHES.items():
        add(m + ' {0}', [Rel(2, -128, 127)], rel8(op))
    for m, op in IMPLIED.items():
        add(m, [], [op])
    if cmos:
        add('bra {0}', [Rel(2, -128, 127)], rel8(0x80))
        add('inc a', [], [0x1a])
        add('dec a', [], [0x3a])
        for m, op in (('phx', 0xda), ('phy', 0x5a), ('plx', 0xfa), ('ply', 0x7a)):
            add(m, [], [op])
        add('stz {0}', [A16()], zp_or_abs(0x64, 0x9c))
        add('stz {0},x', [A16()], zp_or_abs(0x74, 0x9e))
        add('trb {0}', [A16()], zp_or_abs(0x14, 0x1c))
        add('tsb {0}', [A16()], zp_or_abs(0x04, 0x0c))
        add('bit #{0}', [IMM()], lambda v, pc: [0x89, lo(v[0])])
        add('bit {0},x', [A16()], zp_or_abs(0x34, 0x3c))
        add('jmp ({0},x)', [A16()], only_abs(0x7c))
    if bitops:
        for n in range(8):
            add('rmb%d {0}' % n, [ZP()], only_zp(0x07 | n << 4))
            add('smb%d {0}' % n, [ZP()], only_zp(0x87 | n << 4))

            def bb(op):
                def enc(v, pc):
                    d = v[1] - (pc + 3)
                    assert -128 <= d <= 127
                    return [op, v[0], d & 0xff]
                return enc
            add('bbr%d {0},{1}' % n, [ZP(), Rel(3, -128, 127)], bb(0x0f | n << 4))
            add('bbs%d {0},{1}' % n, [ZP(), Rel(3, -128, 127)], bb(0x8f | n << 4))
    if cpu == 'w65c02s':
        add('wai', [], [0xcb])
        add('stp', [], [0xdb])
    return F
