"""Reference encoder: Intel 8080 / 8085 (Intel mnemonics), from the Intel 8080/8085 assembly language
programming manual's instruction tables."""
from .isa_common import Form, Int, Choice

NAME = '8080'
UNIT = 1
PCSYM = '$'
ORG = 0x100
SPACE = (0, 0xffff)
CPUS = ('8080', '8085')
HDR = 0x41


def hexnum(v):
    return '0%xh' % v


R8 = ['b', 'c', 'd', 'e', 'h', 'l', 'm', 'a']
RP = ['b', 'd', 'h', 'sp']
RPQ = ['b', 'd', 'h', 'psw']
CC = ['nz', 'z', 'nc', 'c', 'po', 'pe', 'p', 'm']

D8 = lambda: Int(-128, 255, name='imm8')
D16 = lambda: Int(-32768, 65535, name='imm16')
A16 = lambda: Int(0, 65535, err_lo=False, name='addr16')
P8 = lambda: Int(0, 255, name='port')


def w(op):
    return lambda v, pc: [op, v[0] & 0xff, (v[0] >> 8) & 0xff]


def b(op):
    return lambda v, pc: [op, v[0] & 0xff]


def forms(cpu):
    F = []
    add = lambda t, f, e, **k: F.append(Form(t, f, e, **k))
    for d, dn in enumerate(R8):
        for s_, sn in enumerate(R8):
            if d == 6 and s_ == 6:
                add('mov m,m', [], None, illegal='no-such-instruction')     # 76h is HLT
            else:
                add('mov %s,%s' % (dn, sn), [], [0x40 | d << 3 | s_])
        add('mvi %s,{0}' % dn, [D8()], b(0x06 | d << 3))
        add('inr %s' % dn, [], [0x04 | d << 3])
        add('dcr %s' % dn, [], [0x05 | d << 3])
        for m, base in (('add', 0x80), ('adc', 0x88), ('sub', 0x90), ('sbb', 0x98), ('ana', 0xa0), ('xra', 0xa8), ('ora', 0xb0), ('cmp', 0xb8)):
            add('%s %s' % (m, dn), [], [base | d])
    for i, rp in enumerate(RP):
        add('lxi %s,{0}' % rp, [D16()], w(0x01 | i << 4))
        add('inx %s' % rp, [], [0x03 | i << 4])
        add('dcx %s' % rp, [], [0x0b | i << 4])
        add('dad %s' % rp, [], [0x09 | i << 4])
    for i, rp in enumerate(RPQ):
        add('push %s' % rp, [], [0xc5 | i << 4])
        add('pop %s' % rp, [], [0xc1 | i << 4])
    add('stax b', [], [0x02])
    add('stax d', [], [0x12])
    add('ldax b', [], [0x0a])
    add('ldax d', [], [0x1a])
    add('sta {0}', [A16()], w(0x32))
    add('lda {0}', [A16()], w(0x3a))
    add('shld {0}', [A16()], w(0x22))
    add('lhld {0}', [A16()], w(0x2a))
    add('jmp {0}', [A16()], w(0xc3))
    add('call {0}', [A16()], w(0xcd))
    for i, c in enumerate(CC):
        add('j%s {0}' % c, [A16()], w(0xc2 | i << 3))
        add('c%s {0}' % c, [A16()], w(0xc4 | i << 3))
        add('r%s' % c, [], [0xc0 | i << 3])
    add('rst {0}', [Int(0, 7, name='rst', nohex=True)], lambda v, pc: [0xc7 | v[0] << 3])
    add('in {0}', [P8()], b(0xdb))
    add('out {0}', [P8()], b(0xd3))
    for m, op in (('adi', 0xc6), ('aci', 0xce), ('sui', 0xd6), ('sbi', 0xde), ('ani', 0xe6), ('xri', 0xee), ('ori', 0xf6), ('cpi', 0xfe)):
        add(m + ' {0}', [D8()], b(op))
    for m, op in (('xchg', 0xeb), ('xthl', 0xe3), ('sphl', 0xf9), ('pchl', 0xe9), ('ret', 0xc9), ('rlc', 0x07), ('rrc', 0x0f), ('ral', 0x17),
                  ('rar', 0x1f), ('daa', 0x27), ('cma', 0x2f), ('stc', 0x37), ('cmc', 0x3f), ('ei', 0xfb), ('di', 0xf3), ('nop', 0x00), ('hlt', 0x76)):
        add(m, [], [op])
    if cpu == '8085':
        add('rim', [], [0x20])
        add('sim', [], [0x30])
    return F
