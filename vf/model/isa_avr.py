"""Reference encoder: Atmel AVR, from the "AVR Instruction Set" manual (doc0856).

Devices: AT90S8515 (classic core: no MUL/MOVW/JMP/CALL/extended LPM), ATmega8 (adds MUL*, FMUL*, MOVW, LPM Rd,Z(+), SPM),
ATmega16 (adds JMP/CALL), ATmega2560 (22-bit program counter: JMP/CALL beyond 64K words, EIJMP/EICALL).  The code segment is word-addressed (AS default codesegsize=1); numbers in C syntax as in the
golden test t_avr."""
from .isa_common import Form, Int, Rel, Choice

NAME = 'avr'
UNIT = 2
PCSYM = '*'
ORG = 0x20
SPACE = (0, 0xfff)
SPACE_OF = {'at90s8515': (0, 0xfff), 'atmega8': (0, 0xfff), 'atmega16': (0, 0x1fff), 'atmega2560': (0, 0x1ffff)}
CPUS = ('at90s8515', 'atmega8', 'atmega16', 'atmega2560')
HDR = 0x3b
SLICE = 12
SLICE_THOROUGH = 3


def hexnum(v):
    return '0x%x' % v


def R(lo=0, hi=31, step=1, bad=(), div=1):
    return Choice([('r%d' % i, i) for i in range(lo, hi + 1, step)], bad=list(bad), name='reg')


K8 = lambda: Int(-128, 255, name='imm8')
BITNO = lambda: Int(0, 7, name='bitno', nohex=True)
Q6 = lambda: Int(0, 63, err_lo=False, name='disp6')
IO6 = lambda: Int(0, 63, err_lo=False, name='ioaddr6')
IO5 = lambda: Int(0, 31, err_lo=False, name='ioaddr5')
A16 = lambda: Int(0, 65535, err_lo=False, name='addr16')

TWOREG = {'add': 0x0c00, 'adc': 0x1c00, 'sub': 0x1800, 'sbc': 0x0800, 'and': 0x2000, 'or': 0x2800, 'eor': 0x2400, 'cp': 0x1400,
          'cpc': 0x0400, 'cpse': 0x1000, 'mov': 0x2c00}
SAMEREG = {'lsl': 0x0c00, 'rol': 0x1c00, 'tst': 0x2000, 'clr': 0x2400}
IMMOPS = {'cpi': 0x3000, 'sbci': 0x4000, 'subi': 0x5000, 'ori': 0x6000, 'sbr': 0x6000, 'andi': 0x7000, 'ldi': 0xe000}
ONEREG = {'com': 0x9400, 'neg': 0x9401, 'swap': 0x9402, 'inc': 0x9403, 'asr': 0x9405, 'lsr': 0x9406, 'ror': 0x9407, 'dec': 0x940a,
          'push': 0x920f, 'pop': 0x900f}
FLAGS = ['c', 'z', 'n', 'v', 's', 'h', 't', 'i']
BRSET = {'brcs': 0, 'brlo': 0, 'breq': 1, 'brmi': 2, 'brvs': 3, 'brlt': 4, 'brhs': 5, 'brts': 6, 'brie': 7}
BRCLR = {'brcc': 0, 'brsh': 0, 'brne': 1, 'brpl': 2, 'brvc': 3, 'brge': 4, 'brhc': 5, 'brtc': 6, 'brid': 7}
FIXED = {'ijmp': 0x9409, 'icall': 0x9509, 'ret': 0x9508, 'reti': 0x9518, 'nop': 0x0000, 'sleep': 0x9588, 'wdr': 0x95a8, 'lpm': 0x95c8}
LDST = [('x', 0x100c), ('x+', 0x100d), ('-x', 0x100e), ('y', 0x0008), ('y+', 0x1009), ('-y', 0x100a), ('z', 0x0000), ('z+', 0x1001), ('-z', 0x1002)]


def rr(op):
    return lambda v, pc: [op | (v[1] & 16) << 5 | v[0] << 4 | v[1] & 15]


def forms(cpu):
    mega = cpu != 'at90s8515'
    F = []
    add = lambda t, f, e, **k: F.append(Form(t, f, e, **k))
    for m, op in TWOREG.items():
        add(m + ' {0},{1}', [R(), R()], rr(op))
    for m, op in SAMEREG.items():
        add(m + ' {0}', [R()], lambda v, pc, op=op: [op | (v[0] & 16) << 5 | v[0] << 4 | v[0] & 15])
    for m, op in IMMOPS.items():
        add(m + ' {0},{1}', [R(16, 31, bad=['r15', 'r0']), K8()], lambda v, pc, op=op: [op | (v[1] & 0xf0) << 4 | (v[0] - 16) << 4 | v[1] & 15])
    add('cbr {0},{1}', [R(16, 31, bad=['r15']), K8()], lambda v, pc: [0x7000 | (~v[1] & 0xf0) << 4 | (v[0] - 16) << 4 | ~v[1] & 15])
    add('ser {0}', [R(16, 31, bad=['r15'])], lambda v, pc: [0xef0f | (v[0] - 16) << 4])
    for m, op in (('adiw', 0x9600), ('sbiw', 0x9700)):
        add(m + ' {0},{1}', [R(24, 30, 2, bad=['r25', 'r22']), Int(0, 63, name='imm6')], lambda v, pc, op=op: [op | (v[1] & 0x30) << 2 | (v[0] - 24) // 2 << 4 | v[1] & 15])
    for m, op in ONEREG.items():
        add(m + ' {0}', [R()], lambda v, pc, op=op: [op | v[0] << 4])
    add('bset {0}', [BITNO()], lambda v, pc: [0x9408 | v[0] << 4])
    add('bclr {0}', [BITNO()], lambda v, pc: [0x9488 | v[0] << 4])
    for i, fl in enumerate(FLAGS):
        add('se' + fl, [], [0x9408 | i << 4])
        add('cl' + fl, [], [0x9488 | i << 4])
    for m, op in (('bld', 0xf800), ('bst', 0xfa00), ('sbrc', 0xfc00), ('sbrs', 0xfe00)):
        add(m + ' {0},{1}', [R(), BITNO()], lambda v, pc, op=op: [op | v[0] << 4 | v[1]])

    def br(op, s=None):
        def enc(v, pc):
            bit, tgt = (s, v[0]) if s is not None else (v[0], v[1])
            k = tgt - (pc + 1)
            assert -64 <= k <= 63
            return [op | (k & 0x7f) << 3 | bit]
        return enc
    add('brbs {0},{1}', [BITNO(), Rel(1, -64, 63)], br(0xf000))
    add('brbc {0},{1}', [BITNO(), Rel(1, -64, 63)], br(0xf400))
    for m, s in BRSET.items():
        add(m + ' {0}', [Rel(1, -64, 63)], br(0xf000, s))
    for m, s in BRCLR.items():
        add(m + ' {0}', [Rel(1, -64, 63)], br(0xf400, s))

    def rj(op):
        def enc(v, pc):
            k = v[0] - (pc + 1)
            assert -2048 <= k <= 2047
            return [op | k & 0xfff]
        return enc
    add('rjmp {0}', [Rel(1, -2048, 2047)], rj(0xc000))
    add('rcall {0}', [Rel(1, -2048, 2047)], rj(0xd000))
    for m, op in FIXED.items():
        add(m, [], [op])
    add('in {0},{1}', [R(), IO6()], lambda v, pc: [0xb000 | (v[1] & 0x30) << 5 | v[0] << 4 | v[1] & 15])
    add('out {0},{1}', [IO6(), R()], lambda v, pc: [0xb800 | (v[0] & 0x30) << 5 | v[1] << 4 | v[0] & 15])
    for m, op in (('sbi', 0x9a00), ('cbi', 0x9800), ('sbic', 0x9900), ('sbis', 0x9b00)):
        add(m + ' {0},{1}', [IO5(), BITNO()], lambda v, pc, op=op: [op | v[0] << 3 | v[1]])
    for spec, op in LDST:
        add('ld {0},%s' % spec, [R()], lambda v, pc, op=op: [0x8000 | op | v[0] << 4])
        add('st %s,{0}' % spec, [R()], lambda v, pc, op=op: [0x8200 | op | v[0] << 4])
    for ptr, pb in (('y', 8), ('z', 0)):
        def q(v):
            return (v & 0x20) << 8 | (v & 0x18) << 7 | v & 7
        add('ldd {0},%s+{1}' % ptr, [R(), Q6()], lambda v, pc, pb=pb: [0x8000 | pb | v[0] << 4 | q(v[1])])
        add('std %s+{0},{1}' % ptr, [Q6(), R()], lambda v, pc, pb=pb: [0x8200 | pb | v[1] << 4 | q(v[0])])
    add('lds {0},{1}', [R(), A16()], lambda v, pc: [0x9000 | v[0] << 4, v[1]])
    add('sts {0},{1}', [A16(), R()], lambda v, pc: [0x9200 | v[1] << 4, v[0]])
    if mega:
        add('mul {0},{1}', [R(), R()], rr(0x9c00))
        add('muls {0},{1}', [R(16, 31, bad=['r15']), R(16, 31, bad=['r15'])], lambda v, pc: [0x0200 | (v[0] - 16) << 4 | v[1] - 16])
        for m, op in (('mulsu', 0x0300), ('fmul', 0x0308), ('fmuls', 0x0380), ('fmulsu', 0x0388)):
            add(m + ' {0},{1}', [R(16, 23, bad=['r24', 'r15']), R(16, 23, bad=['r24', 'r15'])], lambda v, pc, op=op: [op | (v[0] - 16) << 4 | v[1] - 16])
        add('movw {0},{1}', [R(0, 30, 2, bad=['r1', 'r31']), R(0, 30, 2, bad=['r1', 'r31'])], lambda v, pc: [0x0100 | v[0] // 2 << 4 | v[1] // 2])
        add('lpm {0},z', [R()], lambda v, pc: [0x9004 | v[0] << 4])
        add('lpm {0},z+', [R()], lambda v, pc: [0x9005 | v[0] << 4])
        add('spm', [], [0x95e8])
    if cpu in ('atmega16', 'atmega2560'):
        # JMP/CALL: 1001 010k kkkk 11(0|1)k + 16 bits, k = 22-bit word address.  Targets are kept inside the device's flash
        # (ATmega16: 8K words; ATmega2560: 128K words, so address bits 16 of the first word are exercised: 0ffffh, 10000h,
        # 10001h, 1ffffh).  Rejection is demanded for the first address beyond the flash of the ATmega2560 (20000h) and for
        # 400000h (beyond the 22-bit field) on the ATmega16, whose smaller limit the manual does not state.
        lim = SPACE_OF[cpu][1]
        big = cpu == 'atmega2560'
        for m, op in (('jmp', 0x940c), ('call', 0x940e)):
            add(m + ' {0}', [Int(0, lim, err_lo=False, name='addr22', ehi=lim + 1 if big else 1 << 22,
                                 edges=(0xffff, 0x10000, 0x10001, 0x1fffe) if big else ())],
                lambda v, pc, op=op: [op | (v[0] >> 17 & 0x1f) << 4 | v[0] >> 16 & 1, v[0] & 0xffff])
    if cpu == 'atmega2560':
        add('eijmp', [], [0x9419])
        add('eicall', [], [0x9519])
    return F
