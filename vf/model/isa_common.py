"""Common machinery of the reference encoders used by check C14.

An ISA module (isa_<name>.py) provides

    NAME      short name of the family
    UNIT      bytes per address unit of the code segment (1, or 2 for PIC/AVR)
    PCSYM     the assembler's symbol for the current program counter
    ORG       address (in units) at which generated code starts
    SPACE     (lowest, highest) address a branch target may have
    CPUS      tuple of CPU names (argument of the CPU statement)
    hexnum(v) spelling of a non-negative number in the target's hex syntax
    forms(cpu) -> list of Form

A Form is one line of the manufacturer's instruction table: a source template
with numbered operand holes, the operand fields, and an encoder
    enc(vals, pc) -> list of address units (bytes, or 16-bit words when UNIT == 2)
written from the instruction-set definition (never from the AS sources).

Field kinds
    Int(lo, hi)      integer operand whose encodable range is lo..hi; lo-1 and
                     hi+1 must be rejected (unless err_lo / err_hi is False,
                     which means "the manual does not say" -> not generated)
    Rel(off, lo, hi) branch target; the encoded displacement is
                     (target - (pc + off)) / scale and must lie in lo..hi
    Choice(opts)     enumerated operand (register, condition...): list of
                     (source text, value); bad=[texts] are spellings the
                     instruction-set definition excludes (must be rejected)
"""


class Int:
    kind = 'int'

    def __init__(self, lo, hi, err_lo=True, err_hi=True, edges=(), signed_text=False, name='imm', nohex=False, skip=None, elo=None, ehi=None):
        self.lo, self.hi = lo, hi
        self.elo = lo - 1 if elo is None else elo      # first value below the range that no reading of the field can encode
        self.ehi = hi + 1 if ehi is None else ehi
        self.skip = skip                    # predicate: legal values the generator must not produce (manual silent)
        self.err_lo, self.err_hi = err_lo, err_hi
        self.signed_text = signed_text      # rendered with explicit sign (displacement after a register)
        self.name = name
        self.nohex = nohex
        e = [lo, hi]
        for v in (0, lo + 1, hi - 1, -1, 1) + tuple(edges):
            if lo <= v <= hi and v not in e:
                e.append(v)
        if skip:
            e = [v for v in e if not skip(v)]
        self.edges = e

    def valid_edges(self):
        return [(v, self.cls(v)) for v in self.edges]

    def cls(self, v):
        if v == self.lo:
            return 'lo'
        if v == self.hi:
            return 'hi'
        if v == 0:
            return '0'
        if v in (self.lo + 1, self.hi - 1):
            return 'near'
        return 'in'

    def random_valid(self, rng):
        r = rng.random()
        if r < 0.25:
            v = rng.choice(self.edges)
        elif r < 0.5 and self.hi - self.lo > 600:
            # values around the byte boundary matter for short/long form selection
            v = rng.choice([x for x in (254, 255, 256, 257, 127, 128, -127, -128, 0x7fff, 0x8000, 0xffff, 0x10000, 0x10001) if self.lo <= x <= self.hi] or [self.lo])
        else:
            v = rng.randint(self.lo, self.hi)
        while self.skip and self.skip(v):
            v = rng.randint(self.lo, self.hi)
        return v, self.cls(v)

    def errors(self):
        out = []
        if self.err_lo:
            out.append((self.elo, 'lo-1'))
        if self.err_hi:
            out.append((self.ehi, 'hi+1'))
        return out

    def render(self, v, rng, isa, pc, syms=None):
        if self.signed_text:
            return '%+d' % v
        r = rng.random()
        if syms is not None and not self.nohex and r > 0.85:
            # the same number through a symbol that was defined (EQU) before its use
            return syms.setdefault(v, 'kq%d' % len(syms))
        if v >= 0 and not self.nohex and r < 0.3:
            return isa.hexnum(v)
        return '%d' % v


class Rel:
    kind = 'rel'
    name = 'rel'

    def __init__(self, off, lo, hi, scale=1, space=None):
        self.off, self.lo, self.hi, self.scale = off, lo, hi, scale
        self.space = space

    def valid_edges(self):
        vs = [self.lo, self.lo + 1, self.lo + 2, self.hi - 2, self.hi - 1, self.hi, 0, -1, 1]
        seen = []
        for v in vs:
            if self.lo <= v <= self.hi and v not in seen:
                seen.append(v)
        return [(v, self.cls(v)) for v in seen]

    def cls(self, v):
        if v in (self.lo, self.hi):
            return 'lim'
        if v in (self.lo + 1, self.hi - 1):
            return 'lim-1'
        if v in (self.lo + 2, self.hi - 2):
            return 'lim-2'
        if v == 0:
            return '0'
        return 'in'

    def random_valid(self, rng):
        v = rng.randint(self.lo, self.hi)
        return v, self.cls(v)

    def errors(self):
        return [(self.lo - 1, 'lim+1'), (self.lo - 2, 'lim+2'), (self.hi + 1, 'lim+1'), (self.hi + 2, 'lim+2')]

    def target(self, v, pc):
        return pc + self.off + v * self.scale

    def render(self, v, rng, isa, pc, syms=None):
        t = self.target(v, pc)
        r = rng.random()
        if r < 0.4:
            d = t - pc
            return '%s%+d' % (isa.PCSYM, d) if d else isa.PCSYM
        if r < 0.6:
            return isa.hexnum(t)
        return '%d' % t


class Page(Rel):
    """branch target that must lie in the same size-aligned page as address pc+off (4004 JCN/ISZ, PIC GOTO...);
    the operand value is the offset inside that page; -1 and size are the first addresses outside"""
    kind = 'rel'
    name = 'page'

    def __init__(self, off, size):
        Rel.__init__(self, off, 0, size - 1)
        self.size = size

    def valid_edges(self):
        return [(v, self.cls(v)) for v in (0, 1, self.size - 2, self.size - 1)]

    def errors(self):
        return [(-1, 'lim+1'), (self.size, 'lim+1'), (-self.size, 'other-page'), (2 * self.size - 1, 'other-page')]

    def target(self, v, pc):
        return ((pc + self.off) & ~(self.size - 1)) + v

    def render(self, v, rng, isa, pc, syms=None):
        t = self.target(v, pc)
        return isa.hexnum(t) if rng.random() < 0.4 else '%d' % t


class Choice:
    kind = 'choice'

    def __init__(self, opts, bad=(), name='reg'):
        self.opts = [(o, i) if not isinstance(o, tuple) else o for i, o in enumerate(opts)]
        self.bad = list(bad)
        self.name = name

    def valid_edges(self):
        return [(o, 'opt') for o in self.opts]

    def random_valid(self, rng):
        return rng.choice(self.opts), 'opt'

    def errors(self):
        return [((b, None), 'bad-' + self.name) for b in self.bad]

    def render(self, v, rng, isa, pc, syms=None):
        t = v[0]
        if rng.random() < 0.3:
            t = t.upper()
        return t


class Form:
    """one row of an instruction table"""
    __slots__ = ('tmpl', 'fields', 'enc', 'fid', 'illegal')

    def __init__(self, tmpl, fields, enc, fid=None, illegal=None):
        self.tmpl = tmpl
        self.fields = list(fields)
        self.illegal = illegal      # name of the reason: a combination the instruction set does not have (must be rejected)
        if enc is None:
            enc = []
        if not callable(enc):
            const = list(enc)
            enc = lambda v, pc, _c=const: _c
        self.enc = enc
        self.fid = fid or tmpl

    @property
    def mnem(self):
        return self.tmpl.split()[0]


def val_of(x):
    """numeric value of an operand as the encoder sees it"""
    return x[1] if isinstance(x, tuple) else x


class Line:
    __slots__ = ('form', 'vals', 'classes', 'err', 'text', 'pc', 'exp', 'org', 'at_end')

    def __init__(self, form, vals, classes, err, at_end=0):
        self.form, self.vals, self.classes, self.err = form, vals, classes, err
        self.at_end = at_end     # k > 0: the instruction starts k units before the end of a page (Page fields)
        self.text = None
        self.pc = None
        self.exp = None
        self.org = None      # an ORG statement emitted in front of this line


def operand_sets(form, rng, nrand, exhaustive_limit=0):
    """-> (valid, errors): lists of Line (not yet placed)"""
    fs = form.fields
    valid = []
    errs = []
    if form.illegal:
        picks = [f.random_valid(rng) for f in fs]
        return [], [Line(form, [p[0] for p in picks], [p[1] for p in picks], form.illegal)]
    if not fs:
        return [Line(form, [], [], None)], []
    seen = set()

    def add(vals, classes):
        key = tuple(v if not isinstance(v, tuple) else v[0] for v in vals)
        if key in seen:
            return
        seen.add(key)
        valid.append(Line(form, vals, classes, None))

    edges = [f.valid_edges() for f in fs]
    nprod = 1
    for e in edges:
        nprod *= len(e)
    if exhaustive_limit and nprod <= exhaustive_limit:
        import itertools
        for combo in itertools.product(*edges):
            add([c[0] for c in combo], [c[1] for c in combo])
    else:
        n = max(len(e) for e in edges)
        for i in range(n):
            combo = [e[i % len(e)] if len(e) == n or i < len(e) else None for e in edges]
            vals, classes = [], []
            for f, c in zip(fs, combo):
                if c is None:
                    c = f.random_valid(rng)
                vals.append(c[0])
                classes.append(c[1])
            add(vals, classes)
    for _ in range(nrand):
        picks = [f.random_valid(rng) for f in fs]
        add([p[0] for p in picks], [p[1] for p in picks])
    for i, f in enumerate(fs):
        for ev, ecls in f.errors():
            picks = [g.random_valid(rng) for g in fs]
            vals = [p[0] for p in picks]
            classes = [p[1] for p in picks]
            vals[i] = ev
            classes[i] = ecls
            errs.append(Line(form, vals, classes, '%s:%s' % (f.name, ecls)))
    for i, f in enumerate(fs):
        if isinstance(f, Page) and f.off:
            # the instruction in the last units of a page: the page of the *following* instruction counts
            for k in range(1, f.off + 1):
                for ev, ecls in f.valid_edges() + f.errors():
                    picks = [g.random_valid(rng) for g in fs]
                    vals = [p[0] for p in picks]
                    classes = [p[1] for p in picks]
                    vals[i] = ev
                    classes[i] = '%s@end-%d' % (ecls, k)
                    bad = not (f.lo <= ev <= f.hi)
                    (errs if bad else valid).append(Line(form, vals, classes, '%s:%s@end-%d' % (f.name, ecls, k) if bad else None, at_end=k))
    return valid, errs


def place(lines, isa, rng, start=None, space=None, syms=None):
    """assign addresses, render the source text and compute the expected units of every line (in order)"""
    pc = isa.ORG if start is None else start
    lo_space, hi_space = space or isa.SPACE
    for ln in lines:
        f = ln.form
        ln.org = None
        rel = [(i, fl) for i, fl in enumerate(f.fields) if fl.kind == 'rel']
        for i, fl in rel:
            if isinstance(fl, Page):
                if ln.at_end:
                    pc = (pc | (fl.size - 1)) + 1 + fl.size - ln.at_end
                    if pc + 2 * fl.size > hi_space:
                        pc = lo_space + 3 * fl.size - ln.at_end
                    ln.org = pc
                elif (pc % fl.size) + fl.off >= fl.size:
                    # keep the ordinary cases away from the page end (that situation has its own lines)
                    pc = (pc | (fl.size - 1)) + 1 + 2 * fl.off
                    ln.org = pc
                if pc + 8 > hi_space or fl.target(-fl.size, pc) < lo_space:
                    raise ValueError('generated code leaves the address space')
                continue
            sp = fl.space or (lo_space, hi_space)
            t = fl.target(ln.vals[i], pc)
            if t < sp[0] or t > sp[1] or pc < sp[0] or pc > sp[1] - 8:
                # move the instruction so that the target lies inside the address space
                d = t - pc
                lo_pc = max(sp[0], sp[0] - d)
                hi_pc = min(sp[1] - 8, sp[1] - d)
                if lo_pc > hi_pc:
                    raise ValueError('no placement for %s' % f.tmpl)
                pc = rng.randint(lo_pc, hi_pc)
                a = getattr(isa, 'ALIGN', 1)
                pc -= (pc - lo_pc) % a
                ln.org = pc
        ln.pc = pc
        txt = [fl.render(v, rng, isa, pc, syms) for fl, v in zip(f.fields, ln.vals)]
        ln.text = f.tmpl.format(*txt)
        if ln.err is None:
            ln.exp = list(f.enc([val_of(fl.target(v, pc) if fl.kind == 'rel' else v) for fl, v in zip(f.fields, ln.vals)], pc))
            pc += len(ln.exp)
            if pc > hi_space + 1:
                raise ValueError('generated code leaves the address space (slice too large for this target)')
        else:
            ln.exp = []
    return pc


def units_to_bytes(units, unit):
    if unit == 1:
        return bytes(units)
    out = bytearray()
    for u in units:
        out += int(u).to_bytes(unit, 'little')
    return bytes(out)
