"""Reference encoder: TI MSP430 (CPU core, not 430X), from the MSP430x1xx Family User's Guide
(SLAU049) chapter 3: double-operand, single-operand and jump formats, seven addressing modes,
constant generators R2/R3, and the emulated instructions tabulated there.

Generator restrictions (AS-specific, manual silent -> not generated):
  * index 0 in a *source* operand `0(Rn)`: AS emits the equivalent shorter `@Rn` (golden t_msp records this);
  * immediates whose low bits equal a constant-generator value only after truncation (#65535, #255 in byte mode);
  * odd addresses with word instructions; R2/R3 as base of indexed/indirect operands; R3 as register operand.
"""
from .isa_common import Form, Int, Rel, Choice

NAME = 'msp430'
UNIT = 1
PCSYM = '$'
ORG = 0x4000
SPACE = (0, 0xfffe)
ALIGN = 2
CPUS = ('msp430',)
HDR = 0x4a
SLICE = 60
SLICE_THOROUGH = 15


def hexnum(v):
    return '0%xh' % v


# R3 (constant generator 2) as an explicit operand is refused by AS ("invalid register"); the manual is silent -> not generated
ALLREGS = [('r%d' % i, i) for i in range(16) if i != 3] + [('pc', 0), ('sp', 1), ('sr', 2)]
BASEREGS = [('r%d' % i, i) for i in range(4, 16)] + [('r1', 1), ('sp', 1)]
DSTREGS = [('r%d' % i, i) for i in range(4, 16)] + [('sp', 1), ('r1', 1), ('sr', 2), ('r2', 2)]      # PC as destination is a jump; kept out of the generic forms

CG = {0: (3, 0), 1: (3, 1), 2: (3, 2), -1: (3, 3), 4: (2, 2), 8: (2, 3)}


def w16(v):
    return [v & 0xff, (v >> 8) & 0xff]


# operand mode descriptors: (template, fields, resolver) ; resolver(vals, extaddr, byte) -> (reg, mode, extword or None)
def src_modes(byte):
    imm = Int(-128, 255, name='imm8', skip=lambda v: v == 255) if byte else Int(-32768, 65535, name='imm16', skip=lambda v: v == 65535)
    addr = lambda: Int(0, 65535, err_lo=False, name='addr16', skip=None if byte else (lambda v: v & 1))
    return [
        ('reg', '{0}', [Choice(ALLREGS)], lambda v, ea, b: (v[0], 0, None)),
        ('idx', '{0}({1})', [Int(-32768, 65535, name='index16', skip=lambda v: v == 0), Choice(BASEREGS)], lambda v, ea, b: (v[1], 1, v[0] & 0xffff)),
        ('sym', '{0}', [addr()], lambda v, ea, b: (0, 1, (v[0] - ea) & 0xffff)),
        ('abs', '&{0}', [addr()], lambda v, ea, b: (2, 1, v[0] & 0xffff)),
        ('ind', '@{0}', [Choice(BASEREGS)], lambda v, ea, b: (v[0], 2, None)),
        ('inc', '@{0}+', [Choice(BASEREGS)], lambda v, ea, b: (v[0], 3, None)),
        ('imm', '#{0}', [imm], lambda v, ea, b: CG[v[0]] + (None,) if v[0] in CG else (0, 3, v[0] & 0xffff)),
    ]


def dst_modes(byte):
    addr = lambda: Int(0, 65535, err_lo=False, name='addr16', skip=None if byte else (lambda v: v & 1))
    return [
        ('reg', '{0}', [Choice(DSTREGS)], lambda v, ea, b: (v[0], 0, None)),
        ('idx', '{0}({1})', [Int(-32768, 65535, name='index16'), Choice(BASEREGS)], lambda v, ea, b: (v[1], 1, v[0] & 0xffff)),
        ('sym', '{0}', [addr()], lambda v, ea, b: (0, 1, (v[0] - ea) & 0xffff)),
        ('abs', '&{0}', [addr()], lambda v, ea, b: (2, 1, v[0] & 0xffff)),
    ]


def renumber(tmpl, base):
    """shift the {n} holes of an operand template by base"""
    out = tmpl
    for i in (3, 2, 1, 0):
        out = out.replace('{%d}' % i, '{%d}' % (i + base))
    return out


def enc_double(op, byte, sres, nsrc, dres):
    def enc(v, pc):
        sv, dv = v[:nsrc], v[nsrc:]
        sreg, smode, sext = sres(sv, pc + 2, byte)
        dext_addr = pc + 2 + (2 if sext is not None else 0)
        dreg, dmode, dext = dres(dv, dext_addr, byte)
        word = op << 12 | sreg << 8 | dmode << 7 | (1 if byte else 0) << 6 | smode << 4 | dreg
        out = w16(word)
        if sext is not None:
            out += w16(sext)
        if dext is not None:
            out += w16(dext)
        return out
    return enc


def enc_single(op, byte, sres):
    def enc(v, pc):
        reg, mode, ext = sres(v, pc + 2, byte)
        word = 0x1000 | op << 7 | (1 if byte else 0) << 6 | mode << 4 | reg
        out = w16(word)
        if ext is not None:
            out += w16(ext)
        return out
    return enc


DOUBLE = {'mov': 4, 'add': 5, 'addc': 6, 'subc': 7, 'sub': 8, 'cmp': 9, 'dadd': 10, 'bit': 11, 'bic': 12, 'bis': 13, 'xor': 14, 'and': 15}
SINGLE = {'rrc': (0, True), 'swpb': (1, False), 'rra': (2, True), 'sxt': (3, False), 'push': (4, True), 'call': (5, False)}
JUMPS = {'jne': 0, 'jnz': 0, 'jeq': 1, 'jz': 1, 'jnc': 2, 'jlo': 2, 'jc': 3, 'jhs': 3, 'jn': 4, 'jge': 5, 'jl': 6, 'jmp': 7}
# emulated: name -> (real opcode, constant source or None (= dst,dst), byte variant allowed)
EMUL1 = {'adc': (6, 0), 'dadc': (10, 0), 'dec': (8, 1), 'decd': (8, 2), 'inc': (5, 1), 'incd': (5, 2), 'sbc': (7, 0), 'inv': (14, -1),
         'clr': (4, 0), 'tst': (9, 0)}
FIXED = {'clrc': 0xc312, 'clrn': 0xc222, 'clrz': 0xc322, 'setc': 0xd312, 'setn': 0xd222, 'setz': 0xd322, 'dint': 0xc232, 'eint': 0xd232,
         'nop': 0x4303, 'ret': 0x4130, 'reti': 0x1300}


def forms(cpu):
    F = []
    add = lambda t, f, e, **k: F.append(Form(t, f, e, **k))
    for m, op in DOUBLE.items():
        for suffix, byte in (('', False), ('.w', False), ('.b', True)):
            for sname, stm, sfl, sres in src_modes(byte):
                for dname, dtm, dfl, dres in dst_modes(byte):
                    if suffix == '.w' and (sname, dname) not in (('reg', 'reg'), ('imm', 'abs'), ('idx', 'idx')):
                        continue        # `.w` is the default: the explicit suffix is sampled on three operand shapes only
                    tm = '%s%s %s,%s' % (m, suffix, stm, renumber(dtm, len(sfl)))
                    add(tm, list(sfl) + list(dfl), enc_double(op, byte, sres, len(sfl), dres))
    for m, (op, has_b) in SINGLE.items():
        for suffix, byte in (('', False), ('.b', True)):
            if byte and not has_b:
                continue
            for sname, stm, sfl, sres in src_modes(byte):
                if sname == 'imm' and m not in ('push', 'call'):
                    continue
                if sname == 'imm' and m == 'push':
                    # CPU4 erratum: PUSH #4 / PUSH #8 must not use the constant generator on some devices; assemblers differ -> not generated
                    sfl = [Int(-32768, 65535, name='imm16', skip=lambda v: v in (4, 8, 65535))] if not byte else [Int(-128, 255, name='imm8', skip=lambda v: v in (4, 8, 255))]
                add('%s%s %s' % (m, suffix, stm), list(sfl), enc_single(op, byte, sres))
    for m, cond in JUMPS.items():
        def encj(v, pc, cond=cond):
            d = v[0] - (pc + 2)
            assert d % 2 == 0 and -1024 <= d <= 1022
            return w16(0x2000 | cond << 10 | (d >> 1) & 0x3ff)
        add(m + ' {0}', [Rel(2, -512, 511, scale=2)], encj)
    for m, (op, const) in EMUL1.items():
        for suffix, byte in (('', False), ('.w', False), ('.b', True)):
            for dname, dtm, dfl, dres in dst_modes(byte):
                sres = (lambda c: (lambda v, ea, b: CG[c] + (None,)))(const)
                add('%s%s %s' % (m, suffix, dtm), list(dfl), enc_double(op, byte, sres, 0, dres))
    for m, op in (('rla', 5), ('rlc', 6)):
        for suffix, byte in (('', False), ('.b', True)):
            for dname, dtm, dfl, dres in dst_modes(byte):
                if dname == 'idx':
                    # `rla 0(Rn)`: AS emits ADD @Rn,0(Rn) (equivalent, shorter; same rule as for 0(Rn) sources) -> index 0 not generated
                    dfl = [Int(-32768, 65535, name='index16', skip=lambda v: v == 0), dfl[1]]

                def enc2(v, pc, op=op, byte=byte, dres=dres):
                    # ADD(C) dst,dst: the operand is evaluated once as source and once as destination
                    return enc_double(op, byte, dres, len(v), dres)(list(v) + list(v), pc)
                add('%s%s %s' % (m, suffix, dtm), list(dfl), enc2)
    for dname, dtm, dfl, dres in dst_modes(False):
        # POP dst = MOV @SP+,dst
        add('pop %s' % dtm, list(dfl), enc_double(4, False, lambda v, ea, b: (1, 3, None), 0, dres))
        add('pop.b %s' % dtm, list(dfl), enc_double(4, True, lambda v, ea, b: (1, 3, None), 0, dres))
    for sname, stm, sfl, sres in src_modes(False):
        # BR src = MOV src,PC
        add('br %s' % stm, list(sfl), enc_double(4, False, sres, len(sfl), lambda v, ea, b: (0, 0, None)))
    for m, wd in FIXED.items():
        add(m, [], w16(wd))
    return F
