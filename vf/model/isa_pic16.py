"""Reference encoder: Microchip PIC16C8x (14-bit core), from the PIC16C84 data sheet's instruction set summary.

AS specifics taken from the manual: literals in Motorola syntax; the destination operand may be omitted
(default F for COMF DECF DECFSZ INCF INCFSZ RLF RRF SWAPF, default W for ADDWF ANDWF IORWF MOVF SUBWF XORWF);
the data address space is 512 file registers of which the instruction word holds the low 7 bits (banking is
the programmer's business; golden t_16c84 `bsf 500,6`).  The 16C84 has 1K words of program memory, so GOTO/CALL
targets 0..3FFh are generated; 2000h (beyond the 13-bit program counter) must be rejected.
OPTION and TRIS are in the table; AS flags them as obsolete with a warning, which is not an error."""
from .isa_common import Form, Int, Choice

NAME = 'pic16c8x'
UNIT = 2
PCSYM = '*'
ORG = 0x10
SPACE = (0, 0x3ff)
CPUS = ('16c84',)
HDR = 0x70
SLICE = 12
SLICE_THOROUGH = 3


def hexnum(v):
    return '$%x' % v


F7 = lambda: Int(0, 511, err_lo=False, name='fileaddr', edges=(127, 128, 255, 256))
K8 = lambda: Int(-128, 255, name='imm8')
BITNO = lambda: Int(0, 7, name='bitno', nohex=True)
K11 = lambda: Int(0, 0x3ff, err_lo=False, name='addr11', ehi=0x2000)

BYTE_OPS = {'addwf': (0x0700, 0), 'andwf': (0x0500, 0), 'comf': (0x0900, 1), 'decf': (0x0300, 1), 'decfsz': (0x0b00, 1), 'incf': (0x0a00, 1),
            'incfsz': (0x0f00, 1), 'iorwf': (0x0400, 0), 'movf': (0x0800, 0), 'rlf': (0x0d00, 1), 'rrf': (0x0c00, 1), 'subwf': (0x0200, 0),
            'swapf': (0x0e00, 1), 'xorwf': (0x0600, 0)}
LIT_OPS = {'addlw': 0x3e00, 'andlw': 0x3900, 'iorlw': 0x3800, 'movlw': 0x3000, 'retlw': 0x3400, 'sublw': 0x3c00, 'xorlw': 0x3a00}
BIT_OPS = {'bcf': 0x1000, 'bsf': 0x1400, 'btfsc': 0x1800, 'btfss': 0x1c00}
FIXED = {'clrw': 0x0100, 'nop': 0x0000, 'clrwdt': 0x0064, 'retfie': 0x0009, 'return': 0x0008, 'sleep': 0x0063, 'option': 0x0062}


def forms(cpu):
    F = []
    add = lambda t, f, e, **k: F.append(Form(t, f, e, **k))
    for m, (op, dflt) in BYTE_OPS.items():
        dest = Choice([(',f', 1), (',w', 0), (',0', 0), (',1', 1), ('', dflt)], bad=[',2'], name='dest')
        add(m + ' {0}{1}', [F7(), dest], lambda v, pc, op=op: [op | v[1] << 7 | v[0] & 0x7f])
    add('clrf {0}', [F7()], lambda v, pc: [0x0180 | v[0] & 0x7f])
    add('movwf {0}', [F7()], lambda v, pc: [0x0080 | v[0] & 0x7f])
    for m, op in BIT_OPS.items():
        add(m + ' {0},{1}', [F7(), BITNO()], lambda v, pc, op=op: [op | v[1] << 7 | v[0] & 0x7f])
    for m, op in LIT_OPS.items():
        add(m + ' {0}', [K8()], lambda v, pc, op=op: [op | v[0] & 0xff])
    add('call {0}', [K11()], lambda v, pc: [0x2000 | v[0]])
    add('goto {0}', [K11()], lambda v, pc: [0x2800 | v[0]])
    # data sheet: 5 <= f <= 7; the 16C84 has ports A and B only and AS refuses 7 there (manual silent) -> 7 is not generated
    add('tris {0}', [Int(5, 6, name='trisreg', nohex=True, elo=4, ehi=8)], lambda v, pc: [0x0060 | v[0]])
    for m, op in FIXED.items():
        add(m, [], [op])
    return F
