"""Reference encoder: Zilog Z80 (documented instruction set, Zilog Z80 CPU User Manual) and the
Z180/HD64180 additions (MLT, TST, TSTIO, IN0, OUT0, SLP, OTIM/OTDM/OTIMR/OTDMR)."""
from .isa_common import Form, Int, Rel, Choice

NAME = 'z80'
UNIT = 1
PCSYM = '$'
ORG = 0x8000
SPACE = (0, 0xffff)
CPUS = ('z80', 'z180', '8080/z80syntax', '8085/z80syntax')
HDR = 0x51
SLICE = 60
SLICE_THOROUGH = 15


def hexnum(v):
    return '0%xh' % v


R = ['b', 'c', 'd', 'e', 'h', 'l', None, 'a']          # index 6 is (hl)
CC = ['nz', 'z', 'nc', 'c', 'po', 'pe', 'p', 'm']
IDX = (('ix', 0xdd), ('iy', 0xfd))

N8 = lambda: Int(-128, 255, name='imm8')
N16 = lambda: Int(-32768, 65535, name='imm16')
A16 = lambda: Int(0, 65535, err_lo=False, name='addr16')
P8 = lambda: Int(0, 255, err_lo=False, name='port')
D = lambda: Int(-128, 127, signed_text=True, name='disp8')
BITNO = lambda: Int(0, 7, name='bitno', nohex=True)


def lohi(v):
    return [v & 0xff, (v >> 8) & 0xff]


Z80_ONLY_FIRST_BYTES = {0xcb, 0xdd, 0xed, 0xfd, 0x08, 0x10, 0x18, 0x20, 0x28, 0x30, 0x38, 0xd9}


def family(cpu):
    return '8080-z80syntax' if cpu.endswith('/z80syntax') else NAME


def prologue(cpu):
    if cpu.endswith('/z80syntax'):
        return ['\tcpu\t%s' % cpu.split('/')[0], '\tz80syntax\texclusive']
    return ['\tcpu\t%s' % cpu]


def forms(cpu):
    if cpu.endswith('/z80syntax'):
        # 8080/8085 written in Zilog syntax (manual: Z80SYNTAX; processor-specific hints "8080/8085"): the Z80 forms whose
        # opcode exists on the 8080, i.e. everything without prefix byte except the Z80-only single-byte opcodes
        import random
        from .isa_common import operand_sets, val_of
        rng = random.Random(1)
        out = []
        for f in forms('z80'):
            if f.illegal:
                out.append(f)
                continue
            ln = operand_sets(f, rng, 0)[0][0]
            vals = [val_of(fl.target(v, ORG) if fl.kind == 'rel' else v) for fl, v in zip(f.fields, ln.vals)]
            if f.enc(vals, ORG)[0] not in Z80_ONLY_FIRST_BYTES:
                out.append(f)
        if cpu.startswith('8085'):
            out.append(Form('ld a,im', [], [0x20]))      # RIM
            out.append(Form('ld im,a', [], [0x30]))      # SIM
        return out
    F = []
    add = lambda t, f, e, **k: F.append(Form(t, f, e, **k))
    regs = [(i, n) for i, n in enumerate(R) if n]
    # ---- 8-bit loads
    for d, dn in regs:
        for s, sn in regs:
            add('ld %s,%s' % (dn, sn), [], [0x40 | d << 3 | s])
        add('ld %s,{0}' % dn, [N8()], lambda v, pc, d=d: [0x06 | d << 3, v[0] & 0xff])
        add('ld %s,(hl)' % dn, [], [0x46 | d << 3])
        add('ld (hl),%s' % dn, [], [0x70 | d])
        for x, p in IDX:
            add('ld %s,(%s{0})' % (dn, x), [D()], lambda v, pc, d=d, p=p: [p, 0x46 | d << 3, v[0] & 0xff])
            add('ld (%s{0}),%s' % (x, dn), [D()], lambda v, pc, d=d, p=p: [p, 0x70 | d, v[0] & 0xff])
    add('ld (hl),{0}', [N8()], lambda v, pc: [0x36, v[0] & 0xff])
    for x, p in IDX:
        add('ld (%s{0}),{1}' % x, [D(), N8()], lambda v, pc, p=p: [p, 0x36, v[0] & 0xff, v[1] & 0xff])
        add('ld a,(%s)' % x, [], [p, 0x7e, 0])          # displacement may be omitted
    add('ld (hl),(hl)', [], None, illegal='no-such-instruction')      # 76h is HALT
    add('ld a,(bc)', [], [0x0a])
    add('ld a,(de)', [], [0x1a])
    add('ld (bc),a', [], [0x02])
    add('ld (de),a', [], [0x12])
    add('ld a,({0})', [A16()], lambda v, pc: [0x3a] + lohi(v[0]))
    add('ld ({0}),a', [A16()], lambda v, pc: [0x32] + lohi(v[0]))
    add('ld a,i', [], [0xed, 0x57])
    add('ld a,r', [], [0xed, 0x5f])
    add('ld i,a', [], [0xed, 0x47])
    add('ld r,a', [], [0xed, 0x4f])
    # ---- 16-bit loads
    for i, rp in enumerate(['bc', 'de', 'hl', 'sp']):
        add('ld %s,{0}' % rp, [N16()], lambda v, pc, i=i: [0x01 | i << 4] + lohi(v[0]))
        if rp == 'hl':
            add('ld hl,({0})', [A16()], lambda v, pc: [0x2a] + lohi(v[0]))
            add('ld ({0}),hl', [A16()], lambda v, pc: [0x22] + lohi(v[0]))
        else:
            add('ld %s,({0})' % rp, [A16()], lambda v, pc, i=i: [0xed, 0x4b | i << 4] + lohi(v[0]))
            add('ld ({0}),%s' % rp, [A16()], lambda v, pc, i=i: [0xed, 0x43 | i << 4] + lohi(v[0]))
        add('inc %s' % rp, [], [0x03 | i << 4])
        add('dec %s' % rp, [], [0x0b | i << 4])
        add('add hl,%s' % rp, [], [0x09 | i << 4])
        add('adc hl,%s' % rp, [], [0xed, 0x4a | i << 4])
        add('sbc hl,%s' % rp, [], [0xed, 0x42 | i << 4])
    for x, p in IDX:
        add('ld %s,{0}' % x, [N16()], lambda v, pc, p=p: [p, 0x21] + lohi(v[0]))
        add('ld %s,({0})' % x, [A16()], lambda v, pc, p=p: [p, 0x2a] + lohi(v[0]))
        add('ld ({0}),%s' % x, [A16()], lambda v, pc, p=p: [p, 0x22] + lohi(v[0]))
        add('ld sp,%s' % x, [], [p, 0xf9])
        add('push %s' % x, [], [p, 0xe5])
        add('pop %s' % x, [], [p, 0xe1])
        add('ex (sp),%s' % x, [], [p, 0xe3])
        add('inc %s' % x, [], [p, 0x23])
        add('dec %s' % x, [], [p, 0x2b])
        add('jp (%s)' % x, [], [p, 0xe9])
        for i, rp in enumerate(['bc', 'de', x, 'sp']):
            add('add %s,%s' % (x, rp), [], [p, 0x09 | i << 4])
    add('ld sp,hl', [], [0xf9])
    for i, rp in enumerate(['bc', 'de', 'hl', 'af']):
        add('push %s' % rp, [], [0xc5 | i << 4])
        add('pop %s' % rp, [], [0xc1 | i << 4])
    add('ex de,hl', [], [0xeb])
    add("ex af,af'", [], [0x08])
    add('exx', [], [0xd9])
    add('ex (sp),hl', [], [0xe3])
    for m, op in (('ldi', 0xa0), ('ldir', 0xb0), ('ldd', 0xa8), ('lddr', 0xb8), ('cpi', 0xa1), ('cpir', 0xb1), ('cpd', 0xa9), ('cpdr', 0xb9),
                  ('ini', 0xa2), ('inir', 0xb2), ('ind', 0xaa), ('indr', 0xba), ('outi', 0xa3), ('otir', 0xb3), ('outd', 0xab), ('otdr', 0xbb),
                  ('neg', 0x44), ('reti', 0x4d), ('retn', 0x45), ('rld', 0x6f), ('rrd', 0x67)):
        add(m, [], [0xed, op])
    # ---- 8-bit arithmetic / logic
    for k, (m, two) in enumerate((('add', True), ('adc', True), ('sub', False), ('sbc', True), ('and', False), ('xor', False), ('or', False), ('cp', False))):
        pre = m + (' a,' if two else ' ')
        for s, sn in regs:
            add(pre + sn, [], [0x80 | k << 3 | s])
        add(pre + '(hl)', [], [0x86 | k << 3])
        add(pre + '{0}', [N8()], lambda v, pc, k=k: [0xc6 | k << 3, v[0] & 0xff])
        for x, p in IDX:
            add(pre + '(%s{0})' % x, [D()], lambda v, pc, k=k, p=p: [p, 0x86 | k << 3, v[0] & 0xff])
    for d, dn in regs:
        add('inc %s' % dn, [], [0x04 | d << 3])
        add('dec %s' % dn, [], [0x05 | d << 3])
    add('inc (hl)', [], [0x34])
    add('dec (hl)', [], [0x35])
    for x, p in IDX:
        add('inc (%s{0})' % x, [D()], lambda v, pc, p=p: [p, 0x34, v[0] & 0xff])
        add('dec (%s{0})' % x, [D()], lambda v, pc, p=p: [p, 0x35, v[0] & 0xff])
    for m, op in (('daa', 0x27), ('cpl', 0x2f), ('ccf', 0x3f), ('scf', 0x37), ('nop', 0x00), ('halt', 0x76), ('di', 0xf3), ('ei', 0xfb),
                  ('rlca', 0x07), ('rla', 0x17), ('rrca', 0x0f), ('rra', 0x1f), ('ret', 0xc9)):
        add(m, [], [op])
    add('im {0}', [Choice([('0', 0x46), ('1', 0x56), ('2', 0x5e)], bad=['3'], name='im')], lambda v, pc: [0xed, v[0]])
    # ---- rotates, shifts, bit operations
    for k, m in enumerate(['rlc', 'rrc', 'rl', 'rr', 'sla', 'sra', None, 'srl']):
        if not m:
            continue
        for s, sn in regs:
            add('%s %s' % (m, sn), [], [0xcb, k << 3 | s])
        add('%s (hl)' % m, [], [0xcb, k << 3 | 6])
        for x, p in IDX:
            add('%s (%s{0})' % (m, x), [D()], lambda v, pc, k=k, p=p: [p, 0xcb, v[0] & 0xff, k << 3 | 6])
    for m, base in (('bit', 0x40), ('res', 0x80), ('set', 0xc0)):
        for s, sn in regs:
            add('%s {0},%s' % (m, sn), [BITNO()], lambda v, pc, base=base, s=s: [0xcb, base | v[0] << 3 | s])
        add('%s {0},(hl)' % m, [BITNO()], lambda v, pc, base=base: [0xcb, base | v[0] << 3 | 6])
        for x, p in IDX:
            add('%s {0},(%s{1})' % (m, x), [BITNO(), D()], lambda v, pc, base=base, p=p: [p, 0xcb, v[1] & 0xff, base | v[0] << 3 | 6])
    # ---- jumps, calls
    add('jp {0}', [A16()], lambda v, pc: [0xc3] + lohi(v[0]))
    add('call {0}', [A16()], lambda v, pc: [0xcd] + lohi(v[0]))
    for i, c in enumerate(CC):
        add('jp %s,{0}' % c, [A16()], lambda v, pc, i=i: [0xc2 | i << 3] + lohi(v[0]))
        add('call %s,{0}' % c, [A16()], lambda v, pc, i=i: [0xc4 | i << 3] + lohi(v[0]))
        add('ret %s' % c, [], [0xc0 | i << 3])

    def rel(op):
        def enc(v, pc):
            d = v[0] - (pc + 2)
            assert -128 <= d <= 127
            return [op, d & 0xff]
        return enc
    add('jr {0}', [Rel(2, -128, 127)], rel(0x18))
    for c, op in (('nz', 0x20), ('z', 0x28), ('nc', 0x30), ('c', 0x38)):
        add('jr %s,{0}' % c, [Rel(2, -128, 127)], rel(op))
    add('djnz {0}', [Rel(2, -128, 127)], rel(0x10))
    add('jp (hl)', [], [0xe9])
    # restart addresses: 00h, 08h ... 38h (other operand values: the manual is silent -> only 40h as out of range)
    add('rst {0}', [Choice([('%d' % (8 * i), i) for i in range(8)] + [('%02xh' % (8 * i), i) for i in range(8)], bad=['64', '9', '1', '7', '39h', '63', '12', '3fh'], name='rst')],
        lambda v, pc: [0xc7 | v[0] << 3])
    # ---- I/O
    add('in a,({0})', [P8()], lambda v, pc: [0xdb, v[0] & 0xff])
    add('out ({0}),a', [P8()], lambda v, pc: [0xd3, v[0] & 0xff])
    for d, dn in regs:
        add('in %s,(c)' % dn, [], [0xed, 0x40 | d << 3])
        add('out (c),%s' % dn, [], [0xed, 0x41 | d << 3])
    if cpu == 'z180':
        for d, dn in regs:
            add('in0 %s,({0})' % dn, [P8()], lambda v, pc, d=d: [0xed, 0x00 | d << 3, v[0] & 0xff])
            add('out0 ({0}),%s' % dn, [P8()], lambda v, pc, d=d: [0xed, 0x01 | d << 3, v[0] & 0xff])
            add('tst %s' % dn, [], [0xed, 0x04 | d << 3])
        add('tst (hl)', [], [0xed, 0x34])
        add('tst {0}', [N8()], lambda v, pc: [0xed, 0x64, v[0] & 0xff])
        add('tstio {0}', [N8()], lambda v, pc: [0xed, 0x74, v[0] & 0xff])
        for i, rp in enumerate(['bc', 'de', 'hl', 'sp']):
            add('mlt %s' % rp, [], [0xed, 0x4c | i << 4])
        for m, op in (('slp', 0x76), ('otim', 0x83), ('otdm', 0x8b), ('otimr', 0x93), ('otdmr', 0x9b)):
            add(m, [], [0xed, op])
    return F
