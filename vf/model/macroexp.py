"""Reference model for property C11: carries out AS macro-processor constructs by hand.

Written from doc/pseudo-instructions.md ("Macro Instructions", INCLUDE, BINCLUDE),
not from the C sources.  It takes the text of a program (main file + include
files + binary files) and produces the text of the program "obtained by
carrying out those constructs by hand": a flat list of source lines without
MACRO/REPT/IRP/IRPN/IRPC/WHILE/EXITM/SHIFT/INCLUDE/BINCLUDE and without the
conditional-assembly lines that steer them.

Rules implemented (each with the sentence of the manual it comes from):

* parameter substitution is purely textual, strings are not protected
  ("string constants are not protected from macro expansions");
* only a whole parameter name is replaced; a name is delimited by anything
  that is not a letter or digit ("only letters and numbers are allowed [in
  parameter names] ... the underscore allows to concatenate macro parameter
  names to a symbol"); `\\name\\` is replaced as one unit regardless of the
  neighbours ("parameter names surrounded by \\ will be replaced as one");
* matching is case-insensitive unless the assembler runs case-sensitive;
  the implicit parameters ATTRIBUTE, ALLARGS, ARGCOUNT are always
  case-insensitive;
* all parameters of one construct are substituted simultaneously (the
  arguments "are textually inserted into the instruction block and the
  resulting assembler code is assembled as usual": inserted text is not
  scanned again for parameters of the same construct);
* the outer construct substitutes first: the lines of a nested construct are
  read through the enclosing expansion;
* positional / keyword arguments, defaults ("used if there is no argument for
  this parameter ... or if the positional argument is empty"), keyword
  arguments may assign the empty string, missing arguments are empty;
* SHIFT "discards the first parameter, with the result that the second
  parameter takes its place and so on"; lines read after it see the new
  binding (a macro body is read line by line: manual, SHIFT, first example);
* EXITM ends the innermost MACRO/REPT/IRP/WHILE expansion and resets the
  conditional-assembly stack to the state before the expansion;
* REPT n: n<=0 -> nothing; IRP: one pass per argument; IRPN: batches of
  `count` arguments, a ragged tail is filled with empty arguments; IRPC: one
  pass per character, "only inserts the pure character";
* WHILE: body assembled while the expression is true, tested before each pass;
* labels defined in a body are private to one expansion / one pass through a
  repetition unless {GLOBALSYMBOLS} is given: the hand expansion renames them
  (definition and the references on the same nesting level) per expansion;
* INCLUDE inserts the file "as if it would have been inserted with an
  editor"; BINCLUDE file[,offset[,length]] lays down the bytes of the file.

Everything outside this list (references from a nested construct to a private label of
the enclosing one, ARGCOUNT with fewer arguments than
parameters, ...) is not defined by the manual; the generator of the check does
not produce it and the model raises ModelError if it meets something it
cannot decide.
"""
import posixpath
import re


class ModelError(Exception):
    pass


STARTERS = ('MACRO', 'REPT', 'IRP', 'IRPN', 'IRPC', 'WHILE')
ENDERS = ('ENDM', 'ENDR')
ALNUM = 'ABCDEFGHIJKLMNOPQRSTUVWXYZabcdefghijklmnopqrstuvwxyz0123456789'
IDCH = ALNUM + '_.'


# ---------------------------------------------------------------------------
# line syntax

def split_line(line):
    """-> (label or None, opcode or None, attribute or None, operand string).
    A label starts in column 1 (optionally ends with a colon).  Generated
    sources contain no comments."""
    s = line.rstrip('\r\n')
    label = None
    pos = 0
    if s and s[0] not in ' \t':
        m = re.match(r'[^\s:]+', s)
        label = m.group(0)
        pos = m.end()
        if pos < len(s) and s[pos] == ':':
            pos += 1
    rest = s[pos:].strip()
    if not rest:
        return label, None, None, ''
    m = re.match(r'\S+', rest)
    op = m.group(0)
    args = rest[m.end():].strip()
    attr = None
    if '.' in op and not op.startswith('.'):
        op, attr = op.split('.', 1)
    return label, op, attr, args


def split_args(s):
    """split an operand field at commas outside quotes and parentheses;
    elements are stripped of surrounding blanks.  Empty field -> []."""
    if s.strip() == '':
        return []
    out = []
    cur = []
    q = None
    depth = 0
    for ch in s:
        if q:
            cur.append(ch)
            if ch == q:
                q = None
            continue
        if ch in '"\'':
            q = ch
            cur.append(ch)
        elif ch == '(':
            depth += 1
            cur.append(ch)
        elif ch == ')':
            depth -= 1
            cur.append(ch)
        elif ch == ',' and depth == 0:
            out.append(''.join(cur).strip())
            cur = []
        else:
            cur.append(ch)
    if q:
        raise ModelError('unterminated quote in operand field %r' % s)
    out.append(''.join(cur).strip())
    return out


# ---------------------------------------------------------------------------
# textual substitution

def substitute(line, names, values, case_sensitive, implicit=None, hits=None):
    """Replace every whole occurrence of a parameter name, simultaneously.

    names: list of parameter names; values: list of texts (same length).
    implicit: dict NAME(upper) -> text for the always case-insensitive implicit
    parameters.  Scans left to right; at each position the `\\name\\` form is
    tried first, then the bare name delimited by non-alphanumerics."""
    cands = []
    for n, v in zip(names, values):
        cands.append((n, v, case_sensitive))
    if implicit:
        for n, v in implicit.items():
            cands.append((n, v, False))
    if not cands:
        return line
    # longest name first so that a name that is a prefix of another cannot win
    cands.sort(key=lambda c: -len(c[0]))
    out = []
    i = 0
    n = len(line)

    def eq(a, b, cs):
        return a == b if cs else a.upper() == b.upper()

    while i < n:
        done = False
        if line[i] == '\\':
            for name, val, cs in cands:
                L = len(name)
                if i + 1 + L < n and line[i + 1 + L] == '\\' and eq(line[i + 1:i + 1 + L], name, cs):
                    out.append(val)
                    if hits is not None:
                        hits.add(name)
                    i += L + 2
                    done = True
                    break
            if done:
                continue
        if line[i] in ALNUM and (i == 0 or line[i - 1] not in ALNUM):
            j = i
            while j < n and line[j] in ALNUM:
                j += 1
            word = line[i:j]
            for name, val, cs in cands:
                if len(name) == len(word) and eq(word, name, cs):
                    out.append(val)
                    if hits is not None:
                        hits.add(name)
                    done = True
                    break
            if not done:
                out.append(word)
            i = j
            continue
        out.append(line[i])
        i += 1
    return ''.join(out)


# ---------------------------------------------------------------------------
# tiny expression evaluator (only what the generator writes into REPT counts,
# WHILE / IF conditions and SET statements)

_TOK = re.compile(r'\s*(?:(\d+)|\$([0-9A-Fa-f]+)|"([^"]*)"|\'([^\']*)\'|([A-Za-z_][A-Za-z0-9_.]*)|(<=|>=|<>|==|!=|[-+*/()<>=]))')


class _Eval:
    def __init__(self, text, env, case_sensitive):
        self.toks = []
        pos = 0
        text = text.strip()
        while pos < len(text):
            m = _TOK.match(text, pos)
            if not m:
                raise ModelError('cannot tokenise expression %r at %d' % (text, pos))
            pos = m.end()
            if m.group(1) is not None:
                self.toks.append(('n', int(m.group(1))))
            elif m.group(2) is not None:
                self.toks.append(('n', int(m.group(2), 16)))
            elif m.group(3) is not None:
                self.toks.append(('s', m.group(3)))
            elif m.group(4) is not None:
                self.toks.append(('s', m.group(4)))
            elif m.group(5) is not None:
                self.toks.append(('id', m.group(5)))
            else:
                self.toks.append(('op', m.group(6)))
        self.i = 0
        self.env = env
        self.cs = case_sensitive
        self.text = text

    def peek(self):
        return self.toks[self.i] if self.i < len(self.toks) else (None, None)

    def take(self):
        t = self.peek()
        self.i += 1
        return t

    def parse(self):
        v = self.cmp()
        if self.i != len(self.toks):
            raise ModelError('trailing tokens in expression %r' % self.text)
        return v

    def cmp(self):
        a = self.add()
        k, v = self.peek()
        if k == 'op' and v in ('<', '<=', '>', '>=', '=', '==', '<>', '!='):
            if v == '!=':
                raise ModelError('!= is not generated')
            self.take()
            b = self.add()
            if isinstance(a, str) != isinstance(b, str):
                raise ModelError('comparison of string with integer in %r' % self.text)
            r = {'<': a < b, '<=': a <= b, '>': a > b, '>=': a >= b, '=': a == b, '==': a == b, '<>': a != b}[v]
            return 1 if r else 0
        return a

    def add(self):
        a = self.mul()
        while True:
            k, v = self.peek()
            if k == 'op' and v in '+-' and len(v) == 1:
                self.take()
                b = self.mul()
                if isinstance(a, str) or isinstance(b, str):
                    raise ModelError('arithmetic on strings')
                a = a + b if v == '+' else a - b
            else:
                return a

    def mul(self):
        a = self.atom()
        while True:
            k, v = self.peek()
            if k == 'op' and v == '*':
                self.take()
                b = self.atom()
                if isinstance(a, str) or isinstance(b, str):
                    raise ModelError('arithmetic on strings')
                a = a * b
            elif k == 'op' and v == '/':
                raise ModelError('division is not generated')
            else:
                return a

    def atom(self):
        k, v = self.take()
        if k == 'n' or k == 's':
            return v
        if k == 'id':
            key = v if self.cs else v.upper()
            if key not in self.env:
                raise ModelError('symbol %r unknown to the model in %r' % (v, self.text))
            return self.env[key]
        if k == 'op' and v == '(':
            r = self.cmp()
            k2, v2 = self.take()
            if (k2, v2) != ('op', ')'):
                raise ModelError('missing ) in %r' % self.text)
            return r
        raise ModelError('unexpected token %r in %r' % (v, self.text))


def evaluate(text, env, case_sensitive):
    return _Eval(text, env, case_sensitive).parse()


# ---------------------------------------------------------------------------
# the expander

class _Exit(Exception):
    """EXITM travelling up to the innermost expansion"""


class MacroDef:
    def __init__(self, name, params, defaults, globalsymbols, body):
        self.name = name
        self.params = params
        self.defaults = defaults
        self.globalsymbols = globalsymbols
        self.body = body


class _MacroFrame:
    """argument binding of one macro expansion (SHIFT modifies it)"""

    def __init__(self, mdef, args, attr, allargs, argcount):
        self.mdef = mdef
        self.args = args              # list: one text per formal parameter, then the excess arguments
        self.attr = attr
        self.allargs = allargs
        self.argcount = argcount
        self.shifted = False


class Expander:
    def __init__(self, files, binfiles, case_sensitive=False, has_attr=True, data_op='byt',
                 max_lines=30000, max_iter=400, max_depth=60):
        self.files = files            # name -> text
        self.bin = binfiles           # name -> bytes
        self.cs = case_sensitive
        self.has_attr = has_attr
        self.data_op = data_op
        self.macros = {}
        self.env = {}
        self.out = []                 # [text, scope id]
        self.scope_ctr = 0
        self.max_lines = max_lines
        self.max_iter = max_iter
        self.max_depth = max_depth
        self.depth = 0
        self.stats = {}
        self.events = []              # (kind, detail) for evidence
        self.frames = []              # macro expansions in progress (innermost last)
        self.dirs = ['']               # directory of the file being read (INCLUDE/BINCLUDE look there first)
        self.param_numbers = set()    # numbers of macro parameters that were substituted at least once
        self.implicit_used = set()

    # -- helpers
    def key(self, name):
        return name if self.cs else name.upper()

    def count(self, k, n=1):
        self.stats[k] = self.stats.get(k, 0) + n

    def emit(self, text, scope):
        if len(text) > 250:
            # "The lines must not be longer than 255 characters, additional characters are discarded"
            raise ModelError('expanded line longer than 250 characters')
        self.out.append([text, scope])
        if len(self.out) > self.max_lines:
            raise ModelError('expansion exceeds %d lines' % self.max_lines)

    # -- entry
    def expand(self, main):
        self.run_lines(self.files[main].split('\n'), None, None, top=True)
        return [t for t, _ in self.out]

    # -- reading a block of lines
    def collect_body(self, lines, i, subst):
        """lines[i:] follow a construct start; returns (body lines as read through
        `subst`, index after the matching ENDM)."""
        depth = 0
        body = []
        while i < len(lines):
            ln = subst(lines[i]) if subst else lines[i]
            i += 1
            _, op, _, _ = split_line(ln)
            u = op.upper() if op else None
            if u in STARTERS:
                depth += 1
            elif u in ENDERS:
                if depth == 0:
                    return body, i
                depth -= 1
            body.append(ln)
        raise ModelError('construct without ENDM')

    def new_scope(self):
        self.scope_ctr += 1
        return self.scope_ctr

    def close_scope(self, scope, first_index, labels):
        """rename the private labels of one expansion on the lines of its own level"""
        if not labels:
            return
        flags = 0 if self.cs else re.I
        for name in labels:
            new = '%s__%d' % (name, scope)
            pat = re.compile(r'(?<![A-Za-z0-9_.$@])' + re.escape(name) + r'(?![A-Za-z0-9_.])', flags)
            for ent in self.out[first_index:]:
                if ent[1] == scope:
                    ent[0] = pat.sub(new, ent[0])
        self.count('private_labels_renamed', len(labels))

    def run_scoped(self, lines, subst, private):
        """one expansion (macro call or one pass of a repetition).
        Returns True if it was ended by EXITM."""
        scope = self.new_scope() if private else None
        first = len(self.out)
        labels = []
        exited = False
        self.depth += 1
        if self.depth > self.max_depth:
            raise ModelError('nesting deeper than %d' % self.max_depth)
        try:
            self.run_lines(lines, subst, scope, labels=labels)
        except _Exit:
            exited = True
        finally:
            self.depth -= 1
        if private:
            self.close_scope(scope, first, labels)
        return exited

    def run_lines(self, lines, subst, scope, labels=None, top=False, frame=None):
        """Process lines sequentially.  subst: callable applied to each line as it is
        read (the enclosing expansion's parameter substitution) or None.
        scope: id of the private-label scope the emitted lines belong to."""
        ifstack = []       # entries: [active_before, taken_already, active_now]
        i = 0
        n = len(lines)
        while i < n:
            raw = lines[i]
            i += 1
            line = subst(raw) if subst else raw
            label, op, attr, args = split_line(line)
            u = op.upper() if op else None
            active = all(e[2] for e in ifstack)
            # ---- conditional assembly
            if u == 'IF':
                if active:
                    v = evaluate(args, self.env, self.cs)
                    if isinstance(v, str):
                        raise ModelError('IF on a string')
                    ifstack.append([True, v != 0, v != 0])
                    self.count('if_evaluated')
                else:
                    ifstack.append([False, True, False])
                continue
            if u == 'ELSE' or u == 'ELSEIF':
                if not ifstack:
                    raise ModelError('ELSE without IF')
                e = ifstack[-1]
                if u == 'ELSEIF' and args.strip():
                    if e[0] and not e[1]:
                        v = evaluate(args, self.env, self.cs)
                        e[2] = v != 0
                        e[1] = e[1] or e[2]
                    else:
                        e[2] = False
                else:
                    e[2] = e[0] and not e[1]
                    e[1] = True
                continue
            if u == 'ENDIF':
                if not ifstack:
                    raise ModelError('ENDIF without IF')
                ifstack.pop()
                continue
            if not active:
                if u in STARTERS:
                    # skipped construct: its body is skipped up to the matching ENDM
                    _, i = self.collect_body(lines, i, subst)
                continue
            # ---- constructs
            if u == 'MACRO':
                body, i = self.collect_body(lines, i, subst)
                self.define_macro(label, args, body)
                continue
            if u in ENDERS:
                raise ModelError('ENDM without construct')
            if u == 'REPT':
                body, i = self.collect_body(lines, i, subst)
                self.do_rept(label, args, body, scope)
                continue
            if u == 'WHILE':
                body, i = self.collect_body(lines, i, subst)
                self.do_while(label, args, body, scope)
                continue
            if u == 'IRP':
                body, i = self.collect_body(lines, i, subst)
                self.do_irp(label, args, body, scope)
                continue
            if u == 'IRPN':
                body, i = self.collect_body(lines, i, subst)
                self.do_irpn(label, args, body, scope)
                continue
            if u == 'IRPC':
                body, i = self.collect_body(lines, i, subst)
                self.do_irpc(label, args, body, scope)
                continue
            if u == 'EXITM':
                if top or self.depth == 0:
                    raise ModelError('EXITM outside of an expansion')
                self.count('exitm_taken')
                raise _Exit()
            if u == 'SHIFT':
                # SHIFT works on the arguments of the macro expansion whose body it stands in, also from
                # inside a repetition nested in that body (manual, SHIFT, first example: the block is
                # captured with the arguments already inserted, then SHIFT is executed once per pass)
                fr = self.frames[-1] if self.frames else None
                if fr is None:
                    raise ModelError('SHIFT outside of a macro body (or inside an included file)')
                if subst is None or getattr(subst, 'frame', None) is not fr:
                    self.count('shift_in_nested_block')
                if fr.args:
                    fr.args.pop(0)
                fr.shifted = True
                self.count('shift_executed')
                continue
            if u == 'INCLUDE':
                self.note_label(label, scope, labels, line)
                self.do_include(args, subst, scope, labels)
                continue
            if u == 'BINCLUDE':
                self.note_label(label, scope, labels, line)
                self.do_binclude(label, args, scope)
                continue
            if u in ('SET', 'EQU') and label:
                # tracked so that REPT counts / WHILE / IF conditions can be evaluated;
                # the statement itself stays in the program
                try:
                    v = evaluate(args, self.env, self.cs)
                    if not isinstance(v, str):
                        self.env[self.key(label)] = v
                    else:
                        self.env.pop(self.key(label), None)
                except ModelError:
                    self.env.pop(self.key(label), None)
                self.emit(line, scope)
                continue
            if op is not None and not (op.startswith('!')):
                md = self.macros.get(self.key(op))
                if md is not None:
                    self.note_label(label, scope, labels, line)
                    self.call_macro(md, label, attr, args, scope)
                    continue
            # ---- plain statement
            if label is not None and labels is not None and scope is not None:
                labels.append(label)
            if line.strip() == '':
                continue
            self.emit(line, scope)
        if ifstack:
            raise ModelError('IF without ENDIF inside one body')

    def note_label(self, label, scope, labels, line):
        """a label in front of a construct statement labels the current address: it stays
        in the hand expansion as a line of its own"""
        if label is None:
            return
        if labels is not None and scope is not None:
            labels.append(label)
        self.emit(label + ':', scope)

    # -- MACRO
    def define_macro(self, name, args, body):
        if not name:
            raise ModelError('MACRO without name')
        params = []
        defaults = []
        glob = False
        for a in split_args(args):
            if a.startswith('{') and a.endswith('}'):
                c = a[1:-1].strip().upper()
                if c == 'GLOBALSYMBOLS':
                    glob = True
                elif c == 'NOGLOBALSYMBOLS':
                    glob = False
                elif c in ('EXPAND', 'NOEXPAND', 'EXPIF', 'NOEXPIF', 'EXPMACRO', 'NOEXPMACRO', 'EXPREST', 'NOEXPREST'):
                    pass          # listing only
                else:
                    raise ModelError('control parameter %s not modelled' % c)
                continue
            if '=' in a:
                p, d = a.split('=', 1)
                params.append(p.strip())
                defaults.append(d.strip())
            else:
                params.append(a)
                defaults.append('')
        for p in params:
            if not re.match(r'^[A-Za-z][A-Za-z0-9]*$', p):
                raise ModelError('bad parameter name %r' % p)
        self.macros[self.key(name)] = MacroDef(name, params, defaults, glob, body)
        self.count('macros_defined')
        self.events.append(('macro-def', len(params)))

    def call_macro(self, md, label, attr, args, scope):
        given = split_args(args)
        np_ = len(md.params)
        bound = [None] * np_
        excess = []
        named = False
        kinds = set()
        for idx, a in enumerate(given):
            m = re.match(r'^([A-Za-z][A-Za-z0-9]*)\s*=(.*)$', a)
            if m and '"' not in m.group(1):
                pname = m.group(1)
                hit = None
                for k, p in enumerate(md.params):
                    if self.key(p) == self.key(pname):
                        hit = k
                        break
                if hit is None:
                    raise ModelError('keyword argument for unknown parameter %r' % pname)
                if bound[hit] is not None:
                    raise ModelError('parameter bound twice')
                bound[hit] = m.group(2).strip()
                named = True
                kinds.add('keyword')
                if bound[hit] == '':
                    kinds.add('keyword-empty')
                continue
            if '=' in re.sub(r'"[^"]*"|\'[^\']*\'', '', a):
                raise ModelError('positional argument containing = is not modelled')
            if named:
                raise ModelError('positional argument after keyword argument')
            if idx < np_:
                if a != '':
                    bound[idx] = a
                else:
                    kinds.add('empty-positional')
            else:
                excess.append(a)
                kinds.add('excess')
        for k in range(np_):
            if bound[k] is None:
                bound[k] = md.defaults[k]
                if md.defaults[k] != '':
                    kinds.add('default-used')
                elif k >= len(given):
                    kinds.add('missing->empty')
        fr = _MacroFrame(md, bound + excess, attr or '', ','.join(given), len(given))
        if 'keyword' in kinds:
            fr.allargs = None          # "all arguments passed": not defined for keyword arguments
        # after SHIFT the remaining list is only defined by the manual's examples for plain
        # positional calls that give every parameter a non-empty argument
        # (an empty positional argument stays an empty element of the list if its parameter has no default)
        fr.shift_list_ok = ((not kinds - {'excess', 'empty-positional'}) and len(given) >= np_ and
                            all(given[k] != '' or md.defaults[k] == '' for k in range(np_)))
        self.count('macro_calls')
        for k in kinds:
            self.count('call:' + k)
        self.events.append(('macro-call', md.name))

        cs = self.cs
        has_attr = self.has_attr

        def subst(line, fr=fr):
            names = md.params
            # a parameter that SHIFT has left without an argument: the manual does not say what it
            # becomes (it only shows lists that are consumed up to their end and tested with "..."<>"")
            vals = [fr.args[k] if k < len(fr.args) else ('' if not fr.shifted else '\0UNDEF\0') for k in range(len(names))]
            imp = {}
            if has_attr:
                imp['ATTRIBUTE'] = fr.attr
            if fr.shifted:
                # after SHIFT: the remaining list (manual, SHIFT, second example)
                imp['ALLARGS'] = ','.join(fr.args) if fr.shift_list_ok else None
                # "the actual count of parameters passed", one less per discarded parameter; only used while
                # it stays at or above the formal count (the manual says it is never lower than that)
                imp['ARGCOUNT'] = str(len(fr.args)) if fr.shift_list_ok and len(fr.args) >= len(names) else None
            else:
                imp['ALLARGS'] = fr.allargs
                imp['ARGCOUNT'] = str(fr.argcount) if fr.argcount >= len(names) else None
            undecided = [k for k, v in imp.items() if v is None]
            for k in undecided:
                imp[k] = '\0UNDEF\0'
            hits = set()
            r = substitute(line, names, vals, cs, imp, hits)
            for h in hits:
                if h in names:
                    self.param_numbers.add(names.index(h) + 1)
                else:
                    self.implicit_used.add(h)
            if '\0UNDEF\0' in r:
                raise ModelError('ARGCOUNT/ALLARGS/shifted-out parameter used where the manual does not define its value')
            return r
        subst.frame = fr
        self.frames.append(fr)
        try:
            self.run_macro_body(md, subst, scope)
        finally:
            self.frames.pop()

    def run_macro_body(self, md, subst, scope):
        private = not md.globalsymbols
        if private:
            self.run_scoped(md.body, subst, True)
        else:
            # labels become ordinary labels of the enclosing level
            self.depth += 1
            if self.depth > self.max_depth:
                raise ModelError('nesting deeper than %d' % self.max_depth)
            try:
                self.run_lines(md.body, subst, scope)
            except _Exit:
                pass
            finally:
                self.depth -= 1

    # -- repetitions
    def ctrl_args(self, args):
        glob = False
        rest = []
        for a in split_args(args):
            if a.startswith('{') and a.endswith('}'):
                c = a[1:-1].strip().upper()
                if c == 'GLOBALSYMBOLS':
                    glob = True
                elif c == 'NOGLOBALSYMBOLS':
                    glob = False
                else:
                    raise ModelError('control parameter %s not modelled' % c)
            else:
                rest.append(a)
        return glob, rest

    def one_pass(self, body, subst, glob, scope):
        """returns True when EXITM ended the construct"""
        if not glob:
            return self.run_scoped(body, subst, True)
        self.depth += 1
        try:
            self.run_lines(body, subst, scope)
        except _Exit:
            return True
        finally:
            self.depth -= 1
        return False

    def label_line(self, label, scope):
        if label is not None:
            raise ModelError('label in front of a repetition statement is not generated')

    def do_rept(self, label, args, body, scope):
        self.label_line(label, scope)
        glob, rest = self.ctrl_args(args)
        if len(rest) != 1:
            raise ModelError('REPT needs one count')
        cnt = evaluate(rest[0], self.env, self.cs)
        if isinstance(cnt, str):
            raise ModelError('REPT count is a string')
        self.count('rept')
        self.events.append(('rept', cnt))
        if cnt > self.max_iter:
            raise ModelError('REPT count too large for the model')
        k = 0
        while k < cnt:
            k += 1
            self.count('rept_passes')
            if self.one_pass(body, None, glob, scope):
                break
        if cnt <= 0:
            self.count('zero_pass_loops')

    def do_while(self, label, args, body, scope):
        self.label_line(label, scope)
        glob, rest = self.ctrl_args(args)
        if len(rest) != 1:
            raise ModelError('WHILE needs one condition')
        self.count('while')
        k = 0
        while True:
            v = evaluate(rest[0], self.env, self.cs)
            if isinstance(v, str):
                raise ModelError('WHILE on a string')
            if v == 0:
                break
            k += 1
            if k > self.max_iter:
                raise ModelError('WHILE does not end in the model')
            self.count('while_passes')
            if self.one_pass(body, None, glob, scope):
                break
        self.events.append(('while', k))
        if k == 0:
            self.count('zero_pass_loops')

    def do_irp(self, label, args, body, scope):
        self.label_line(label, scope)
        glob, rest = self.ctrl_args(args)
        if len(rest) < 2:
            raise ModelError('IRP needs a parameter and at least one argument')
        name = rest[0]
        self.count('irp')
        self.events.append(('irp', len(rest) - 1))
        for a in rest[1:]:
            self.count('irp_passes')
            cs = self.cs
            if self.one_pass(body, (lambda ln, a=a: substitute(ln, [name], [a], cs)), glob, scope):
                break

    def do_irpn(self, label, args, body, scope):
        self.label_line(label, scope)
        glob, rest = self.ctrl_args(args)
        if not rest:
            raise ModelError('IRPN without count')
        cnt = evaluate(rest[0], self.env, self.cs)
        if isinstance(cnt, str) or cnt < 1:
            raise ModelError('IRPN count must be >= 1 in the model')
        names = rest[1:1 + cnt]
        vals = rest[1 + cnt:]
        if len(names) != cnt or len(vals) < cnt:
            raise ModelError('IRPN needs count names and at least count arguments')
        self.count('irpn')
        if len(vals) % cnt:
            self.count('irpn_ragged_tail')
            vals = vals + [''] * (cnt - len(vals) % cnt)
        self.events.append(('irpn', cnt, len(vals) // cnt))
        for g in range(0, len(vals), cnt):
            grp = vals[g:g + cnt]
            self.count('irpn_passes')
            cs = self.cs
            if self.one_pass(body, (lambda ln, grp=grp: substitute(ln, names, grp, cs)), glob, scope):
                break

    def do_irpc(self, label, args, body, scope):
        self.label_line(label, scope)
        glob, rest = self.ctrl_args(args)
        if len(rest) != 2:
            raise ModelError('IRPC needs a parameter and a string')
        name, s = rest
        if len(s) >= 2 and s[0] == '"' and s[-1] == '"':
            s = s[1:-1]
        else:
            raise ModelError('IRPC string must be quoted in the model')
        if '\\' in s or '"' in s:
            raise ModelError('escape sequences in IRPC strings are not modelled')
        self.count('irpc')
        self.events.append(('irpc', len(s)))
        if s == '':
            self.count('zero_pass_loops')
        for ch in s:
            self.count('irpc_passes')
            cs = self.cs
            if self.one_pass(body, (lambda ln, ch=ch: substitute(ln, [name], [ch], cs)), glob, scope):
                break

    # -- files
    def do_include(self, args, subst, scope, labels):
        a = split_args(args)
        if len(a) != 1:
            raise ModelError('INCLUDE needs one file name')
        name = a[0]
        if len(name) >= 2 and name[0] == '"' and name[-1] == '"':
            name = name[1:-1]
        if '.' not in posixpath.basename(name):
            name = name + '.inc'
        # "a path contained in the file specification is relative to this file's directory"
        name = posixpath.normpath(posixpath.join(self.dirs[-1], name))
        if name not in self.files:
            raise ModelError('include file %r unknown' % name)
        if posixpath.dirname(name):
            self.count('include_from_subdirectory')
        self.count('include')
        self.events.append(('include', name))
        self.depth += 1
        if self.depth > self.max_depth:
            raise ModelError('nesting deeper than %d' % self.max_depth)
        # the text of the file is not read through the enclosing expansion:
        # parameters are replaced in the lines of the body, not in files
        self.dirs.append(posixpath.dirname(name))
        self.frames.append(None)       # SHIFT inside an included file: not defined by the manual
        try:
            self.run_lines(self.files[name].split('\n'), None, scope, labels=labels, top=(self.depth == 1))
        finally:
            self.frames.pop()
            self.dirs.pop()
            self.depth -= 1

    def do_binclude(self, label, args, scope):
        a = split_args(args)
        if not 1 <= len(a) <= 3:
            raise ModelError('BINCLUDE needs 1..3 arguments')
        name = a[0]
        if len(name) >= 2 and name[0] == '"' and name[-1] == '"':
            name = name[1:-1]
        name = posixpath.normpath(posixpath.join(self.dirs[-1], name))
        if name not in self.bin:
            raise ModelError('binary file %r unknown' % name)
        data = self.bin[name]
        off = 0
        if len(a) >= 2:
            off = evaluate(a[1], self.env, self.cs)
        if off < 0 or off > len(data):
            raise ModelError('BINCLUDE offset outside the file is not generated')
        data = data[off:]
        if len(a) == 3:
            ln = evaluate(a[2], self.env, self.cs)
            if ln < 0 or ln > len(data):
                raise ModelError('BINCLUDE length beyond the file is not generated')
            data = data[:ln]
        self.count('binclude')
        self.count('binclude_bytes', len(data))
        self.events.append(('binclude', len(data)))
        for k in range(0, len(data), 16):
            self.emit('\t%s\t%s' % (self.data_op, ','.join(str(b) for b in data[k:k + 16])), scope)
