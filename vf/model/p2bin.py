"""Reference model of P2BIN.

Written from doc/utility-programs.md (sections P2HEX / P2BIN and the common
conventions at the top of the chapter) and doc/file-formats.md -- not from
p2bin.c.  A pure function from (input files, option values) to the expected
binary file, where every byte is either a definite value or *unspecified*.

What the manual states, and where:
  * records are filtered by `-f` (list of family header bytes; without the
    option everything is taken) and by `-segment` (default CODE)
  * `-r start-stop`: first and last address of the window, both inclusive;
    `$` or `0x` on either side: lowest resp. highest address found
    (taken over the *selected* records -- addresses of other segments live in
    other address spaces); default `0x-0x`
  * addresses relate to the granularity of the processor in question: a
    record of granularity g at address a covers byte addresses a*g ...
  * `(offset)` behind a source name is added to the addresses of that file
  * `-l` fill value for unused areas, default $ff
  * `-m` ALL/EVEN/ODD/BYTEn/WORDn: only bytes whose (byte) address is
    even / odd / 4n+k / in the lower resp. upper 16-bit half of a 32-bit word
    are copied; the file shrinks by the factor 2 or 4
  * `-S [L|B]n`: the image is preceded by the entry address in n bytes,
    little endian unless B; `-e` gives the address, otherwise the entry record
    of the code file is used
  * `-s`: the last byte of the file is replaced so that the byte sum is 0 mod 256

Where the manual says nothing the model answers *unspecified* (None) instead
of guessing:
  * bytes covered by two records that disagree about the value
  * everything about content and length when the selected records have
    different granularities, when an automatic bound has no record to come
    from, when start > stop
  * content and length under -m when the window (in bytes) does not start on
    or does not span a multiple of the lane period
  * the header *content* when no entry address is known, when it does not fit
    into n bytes, or when it comes from a file that carries an (offset)
  * the checksum byte when a header is present whose bytes do not sum to 0
    (the 'file' whose sum becomes zero may or may not include the header):
    both readings are accepted
  * the overlap warning when the only common addresses lie outside the window
    or hold no byte of the selected lane
"""

# mode -> (period in bytes, offsets inside one period that are copied)
LANES = {
    'ALL': (1, (0,)),
    'EVEN': (2, (0,)),
    'ODD': (2, (1,)),
    'BYTE0': (4, (0,)),
    'BYTE1': (4, (1,)),
    'BYTE2': (4, (2,)),
    'BYTE3': (4, (3,)),
    'WORD0': (4, (0, 1)),
    'WORD1': (4, (2, 3)),
}

DEFAULT_FILL = 0xff
SEG_CODE = 1

# origin codes of an image byte
O_FILL, O_DATA, O_UNSPEC = 0, 1, 2

R_LANES = 'window not aligned to the lane period'


class Rec:
    """one data record as placed in the address space (offset already added)"""
    __slots__ = ('cpu', 'seg', 'gran', 'start', 'data', 'fileidx')

    def __init__(self, cpu, seg, gran, start, data, fileidx=0):
        self.cpu, self.seg, self.gran, self.start, self.data, self.fileidx = cpu, seg, gran, start, bytes(data), fileidx

    @property
    def units(self):
        return len(self.data) // self.gran

    @property
    def end(self):          # last address covered
        return self.start + self.units - 1


class Expect:
    def __init__(self):
        self.judged = True          # False: nothing but the exit status is demanded
        self.reason = ''
        self.start = self.stop = None
        self.gran = None
        self.header = []            # list of int | None
        self.image = b''            # bytes after lane selection (checksum byte not applied)
        self.origin = b''           # per byte of image: O_FILL / O_DATA / O_UNSPEC
        self.last_byte = None       # None: no -s ; else set of acceptable values of the final byte
        self.overlap = None         # True / False / None (unspecified)
        self.nselected = 0
        self.ncontributing = 0      # selected records with at least one byte inside the window


def select(files, flt, segment):
    """files: list of (offset, [Rec...]) -> selected Recs in processing order, addresses with offset"""
    out = []
    for fi, (off, recs) in enumerate(files):
        for r in recs:
            if flt is not None and r.cpu not in flt:
                continue
            if r.seg != segment:
                continue
            out.append(Rec(r.cpu, r.seg, r.gran, r.start + off, r.data, fi))
    return out


def lane_pick(buf, mode):
    period, offs = LANES[mode]
    if period == 1:
        return bytes(buf)
    n = len(buf) // period
    out = bytearray(n * len(offs))
    for k, o in enumerate(offs):
        out[k::len(offs)] = buf[o::period][:n]
    return bytes(out)


def expect(files, start=None, stop=None, fill=None, mode='ALL', flt=None, segment=SEG_CODE,
           hdr_len=0, hdr_big=False, entry_opt=None, entries=(), checksum=False):
    """files: list of (offset, [Rec]); start/stop: int or None (automatic);
    entries: list of (address, offset of the file it stands in) for the entry records, in order;
    entry_opt: value of -e or None."""
    e = Expect()
    sel = select(files, flt, segment)
    e.nselected = len(sel)
    if fill is None:
        fill = DEFAULT_FILL

    # ---- header (independent of the rest)
    if hdr_len:
        ent = None
        if entry_opt is not None:
            ent = entry_opt
        elif len(entries) == 1 and entries[0][1] == 0:
            ent = entries[0][0]
        elif len(entries) > 1 and all(o == 0 for _, o in entries) and len(set(a for a, _ in entries)) == 1:
            ent = entries[0][0]
        if ent is None or ent >= (1 << (8 * hdr_len)) or ent < 0:
            e.header = [None] * hdr_len
        else:
            b = list(ent.to_bytes(hdr_len, 'big' if hdr_big else 'little'))
            e.header = b

    def unjudged(why):
        e.judged = False
        e.reason = why
        return e

    grans = set(r.gran for r in sel)
    if len(grans) > 1:
        return unjudged('selected records of different granularity')
    if not sel:
        # no record tells the granularity the window is measured in
        return unjudged('no record selected')
    g = grans.pop()
    e.gran = g
    if any(len(r.data) % g or not r.data for r in sel):
        return unjudged('record length not a positive multiple of the granularity')
    lo = min(r.start for r in sel)
    hi = max(r.end for r in sel)
    if hi > 0xffffffff:
        return unjudged('address beyond 32 bits')
    w0 = lo if start is None else start
    w1 = hi if stop is None else stop
    if w0 > w1:
        return unjudged('start > stop')
    e.start, e.stop = w0, w1
    nbytes = (w1 - w0 + 1) * g
    img = bytearray([fill]) * nbytes
    org = bytearray(nbytes)
    shared_in_window = []          # byte ranges (relative) covered twice
    for r in sel:
        a = max(r.start, w0)
        b = min(r.end, w1)
        if a > b:
            continue
        e.ncontributing += 1
        src = r.data[(a - r.start) * g:(b - r.start + 1) * g]
        p = (a - w0) * g
        q = p + len(src)
        if any(org[p:q]):
            old_i, old_o = img[p:q], org[p:q]
            shared_in_window.append((p, q, bytes(old_o)))
            new_i, new_o = bytearray(src), bytearray([O_DATA]) * len(src)
            for k in range(len(src)):
                if old_o[k] != O_FILL and (old_o[k] == O_UNSPEC or old_i[k] != src[k]):
                    new_o[k] = O_UNSPEC
            img[p:q], org[p:q] = new_i, new_o
        else:
            img[p:q] = src
            org[p:q] = bytearray([O_DATA]) * len(src)

    # ---- overlap warning
    period, offs = LANES[mode]
    any_common = False
    srt = sorted(sel, key=lambda r: (r.start, r.end))
    reach = -1
    for r in srt:
        if r.start <= reach:
            any_common = True
            break
        reach = max(reach, r.end)
    if not any_common:
        e.overlap = False
    else:
        definite = False
        for p, q, old_o in shared_in_window:
            for k in range(q - p):
                if old_o[k] != O_FILL and ((w0 * g + p + k) % period) in offs:
                    definite = True
                    break
            if definite:
                break
        e.overlap = True if definite else None

    # ---- lanes
    if period > 1 and ((w0 * g) % period or nbytes % period):
        e.judged = False
        e.reason = R_LANES
        return e
    e.image = lane_pick(img, mode)
    e.origin = lane_pick(org, mode)

    # ---- checksum
    if checksum and e.image:
        if any(o == O_UNSPEC for o in e.origin[:-1]):
            e.last_byte = set(range(256))
        else:
            s = sum(e.image[:-1]) & 0xff
            alts = {(-s) & 0xff}
            if hdr_len:
                if any(h is None for h in e.header):
                    alts = set(range(256))
                else:
                    alts.add((-(s + sum(e.header))) & 0xff)
            e.last_byte = alts
    return e
