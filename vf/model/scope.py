"""Reference resolver for symbols of AS, written from the user manual only.

Sources: doc/pseudo-instructions.md  "SET, EQU, and CONSTANT", "LABEL",
"PUSHV and POPV", "Local Symbols" (SECTION/ENDSECTION, Nesting and Scope
Rules, PUBLIC and GLOBAL, FORWARD), macro section ("Labels defined in macros
always are regarded as being local, unless GLOBALSYMBOLS ...");
doc/assembler-usage.md "Symbol Conventions" (case), "Temporary Symbols"
(named $$, nameless + - /, composed .name); doc/error-messages.md (numbers).

The model interprets a small abstract program (list of statement tuples, see
below) and says, for every reference exported through a data word, which
value the manual prescribes -- or that the manual does not define the case
(`unspec`), in which case the caller must not generate / compare it.

It models the FINAL pass of a multi-pass assembly: the symbol table is
complete (every constant of the whole source is known), variables carry the
value of the most recent SET/POPV executed before the reference in source
order, temporary symbols bind by position.

Statements (tuples):
  ('section', name)                 ('endsection', name_or_None)
  ('def', how, name, value)         how: equ = label labelstmt (constants, value int or None for a label = PC)
                                         set := eval (variables)
                                    name: plain | '$$x' | '.x' | '+' '-' '/' (how == 'label' only)
  ('ref', [(name, qual), ...])      qual None | '' | 'PARENT' | 'PARENTn' | section name
  ('sref', name)                    a string variable exported through a byte data statement (values are
                                    ('s', two characters), so the slot is as wide as a data word)
  ('decl', kind, [(name, target_or_None), ...])   kind: public global forward
  ('pushv', stack, [names])         ('popv', stack, [names])      stack '' = default stack
  ('macro', name, params, globalsymbols, body)    body: def/ref/nop/section/endsection/decl statements, names may be parameters
                                    value 'PC' of a labelstmt definition = current program counter
  ('call', name, args)              ('nop',)
  ('rept', count, None, globalsymbols, body)   ('irp', param, [args], globalsymbols, body)   ('irpc', param, string, globalsymbols, body)
"""
import re

E_DOUBLE = 1000      # symbol double defined
E_UNDEF = 1010       # symbol undefined
E_UNKSECT = 1484     # unknown section
E_UNRESFWD = 1488    # unresolved forward declaration (FORWARD or PUBLIC)
E_CONFLICT = 1489    # conflicting FORWARD <-> PUBLIC declaration
E_STACKEMPTY = 1530  # stack is empty or undefined
E_CONST2VAR = 2030   # constants cannot be redefined as variables
E_VAR2CONST = 2035   # variables cannot be redefined as constants

CONST_HOW = ('equ', '=', 'label', 'labelstmt')
VAR_HOW = ('set', ':=', 'eval')

_PARENT_RE = re.compile(r'^PARENT([0-9]?)$')


class Unspecified(Exception):
    """the program as a whole leaves the documented territory"""


class Section:
    __slots__ = ('id', 'name', 'spelled', 'parent', 'depth')

    def __init__(self, id_, name, spelled, parent):
        self.id = id_
        self.name = name            # canonical
        self.spelled = spelled
        self.parent = parent        # Section or None (for the global level itself: id -1)
        self.depth = 0 if parent is None else parent.depth + 1

    def chain(self):
        s = self
        while s is not None:
            yield s
            s = s.parent


class Symbol:
    __slots__ = ('iname', 'sect', 'var', 'assigns', 'first_time', 'scope', 'how', 'line', 'via')

    def __init__(self, iname, sect, var, how, line, scope=None, via=None):
        self.iname = iname
        self.sect = sect            # Section (assignment) ; for macro-local: section of the call
        self.var = var
        self.assigns = []           # (time, value)
        self.first_time = None
        self.scope = scope          # None or expansion id for macro-local labels
        self.how = how
        self.line = line
        self.via = via              # None | 'public' | 'global-copy' | 'forward'

    def value_at(self, t):
        v = None
        for (tt, val) in self.assigns:
            if tt < t:
                v = val
            else:
                break
        return v

    def final(self):
        return self.assigns[-1][1]


class RefSlot:
    __slots__ = ('stmt', 'line', 'idx', 'time', 'pc', 'sect', 'exp', 'name', 'qual', 'region', 'lastglob',
                 'lastglob_ok', 'backlog', 'fwd', 'verdict', 'value', 'sym', 'kind', 'when', 'alts', 'fwd_pending', 'p1', 'is_str')


class Expansion:
    __slots__ = ('id', 'locals', 'globalsyms', 'subst', 'sect')


class Result:
    def __init__(self):
        self.refs = []          # RefSlot in emission order
        self.errors = []        # (line, number, 'p1'|'p2')
        self.warnings = []
        self.symtab = []        # (canonical name, canonical section name, final value) non-temporary, not macro-local
        self.stackops = []
        self.tablekeys = set()
        self.end_pc = None
        self.nsections = 0
        self.maxdepth = 0


def norm(v):
    return v if isinstance(v, tuple) else v & 0xffff


def name_class(name):
    if name in ('+', '-', '/'):
        return 'nameless-def'
    if name and set(name) <= {'-'}:
        return 'nameless-back'
    if name and set(name) <= {'+'}:
        return 'nameless-fwd'
    if name.startswith('$$'):
        return 'named-temp'
    if name.startswith('.'):
        return 'composed'
    return 'plain'


class Model:
    def __init__(self, prog, lines, case_sensitive=False, org=0x4000, nopsize=1, wordsize=2):
        """prog: list of statements; lines: parallel list, source line number of each top-level statement"""
        self.prog = prog
        self.lines = lines
        self.cs = case_sensitive
        self.pc = org
        self.nopsize = nopsize
        self.wordsize = wordsize
        self.time = 0
        self.glob = Section(-1, '', '', None)
        self.cur = self.glob
        self.nsect = 0
        self.pending = {}         # section id -> {canonical name: (kind, target Section, line)}
        self.pending[-1] = {}
        self.table = {}           # (iname, section id) -> Symbol
        self.region = 0
        self.lastglob = None
        self.lastglob_ctx = None
        self.backlog = []         # most recent first, at most 3 internal names
        self.backcnt = 0
        self.fwdcnt = 0
        self.stacks = {}
        self.macros = {}
        self.nexp = 0
        self.expansions = []
        self.res = Result()
        self.sibling_names = {-1: set()}

    # -- helpers ---------------------------------------------------------
    def canon(self, s):
        return s if self.cs else s.upper()

    def err(self, line, num, pas='p1'):
        self.res.errors.append((line, num, pas))

    def find_section(self, qual, frm):
        """qualifier text -> Section | 'bad' ; raises Unspecified where the manual is silent"""
        if qual == '':
            return self.glob
        m = _PARENT_RE.match(qual if self.cs else qual.upper())
        if m:
            n = 1 if m.group(1) == '' else int(m.group(1))
            s = frm
            while n > 0:
                if s.parent is None:
                    return 'bad'
                s = s.parent
                n -= 1
            return s
        if self.cs and _PARENT_RE.match(qual.upper()):
            # the manual spells the special values in upper case only
            raise Unspecified('PARENT keyword in another case under -U')
        q = self.canon(qual)
        hits = [s for s in frm.chain() if s.id != -1 and s.name == q]
        if not hits:
            return 'bad'
        if len(hits) > 1:
            raise Unspecified('several sections of one name on the parent path')
        return hits[0]

    # -- execution ---------------------------------------------------------
    def run(self):
        for st, line in zip(self.prog, self.lines):
            self.exec(st, line, None)
        if self.cur is not self.glob:
            raise Unspecified('missing ENDSECTION')
        for name, st in self.stacks.items():
            if st:
                self.res.warnings.append((None, 230))
        self.res.end_pc = self.pc
        self.res.nsections = self.nsect
        self.resolve_all()
        self.res.tablekeys = set(self.table.keys())
        for (iname, sid), sym in self.table.items():
            if iname[0] == 'N' and not isinstance(sym.final(), tuple):
                self.res.symtab.append((iname[1], sym.sect.name, sym.final()))
        return self.res

    def subst(self, name, exp):
        if exp is None or not exp.subst:
            return name
        for p, a in exp.subst.items():
            if (name == p) if self.cs else (name.upper() == p.upper()):
                return a
        return name

    def exec(self, st, line, exp):
        self.time += 1
        op = st[0]
        if op == 'nop':
            self.pc += self.nopsize
        elif op == 'section':
            # also inside a macro body: the manual's own proc/endp macro pair does that
            st = ('section', self.subst(st[1], exp))
            nm = self.canon(st[1])
            if nm in self.sibling_names[self.cur.id]:
                raise Unspecified('section name used twice on one level')
            if any(s.name == nm for s in self.cur.chain() if s.id != -1):
                raise Unspecified('section named like one of its parents')
            self.sibling_names[self.cur.id].add(nm)
            s = Section(self.nsect, nm, st[1], self.cur)
            self.nsect += 1
            self.res.maxdepth = max(self.res.maxdepth, s.depth)
            self.sibling_names[s.id] = set()
            self.pending[s.id] = {}
            self.cur = s
            # "the most recent non-temporary symbol is not stored per-section ... one shouldn't rely on"
            self.lastglob_ctx = None
        elif op == 'endsection':
            if self.cur is self.glob:
                raise Unspecified('ENDSECTION outside section')
            if st[1] is not None and self.canon(self.subst(st[1], exp)) != self.cur.name:
                raise Unspecified('wrong ENDSECTION')
            for nm, (kind, tgt, dline) in self.pending[self.cur.id].items():
                self.err(line, E_UNRESFWD)
            self.cur = self.cur.parent
            self.lastglob_ctx = None
        elif op == 'def':
            self.do_def(st, line, exp)
        elif op in ('ref', 'sref'):
            for i, (name, qual) in enumerate(st[1] if op == 'ref' else [(st[1], None)]):
                r = RefSlot()
                r.is_str = (op == 'sref')
                r.stmt = st
                r.line = line
                r.idx = i
                r.time = self.time
                r.pc = self.pc
                r.sect = self.cur
                r.exp = exp
                r.name = self.subst(name, exp)
                r.qual = qual
                r.region = self.region
                r.lastglob = self.lastglob
                r.lastglob_ok = (self.lastglob is not None and self.lastglob_ctx == (self.cur.id, exp.id if exp else None))
                r.backlog = list(self.backlog)
                r.fwd = self.fwdcnt
                r.verdict = None
                r.value = None
                r.sym = None
                r.kind = None
                r.when = None
                r.alts = {}
                ent = self.pending[self.cur.id].get(self.canon(r.name)) if exp is None else None
                r.fwd_pending = bool(ent and ent[0] == 'forward')
                r.p1 = False
                self.res.refs.append(r)
                self.pc += self.wordsize
        elif op == 'decl':
            self.do_decl(st, line, exp)
        elif op in ('pushv', 'popv'):
            self.do_stack(st, line, exp)
        elif op == 'macro':
            if self.cur is not self.glob or exp is not None:
                raise Unspecified('macro defined inside a section / macro')
            self.macros[st[1]] = st
        elif op == 'call':
            if exp is not None:
                raise Unspecified('nested macro call')
            m = self.macros.get(st[1])
            if m is None:
                raise Unspecified('unknown macro')
            e = Expansion()
            self.nexp += 1
            e.id = self.nexp
            e.locals = {}
            e.globalsyms = m[3]
            e.subst = dict(zip(m[2], st[2]))
            e.sect = self.cur
            self.expansions.append(e)
            self.lastglob_ctx = None
            for b in m[4]:
                self.exec(b, line, e)
            self.lastglob_ctx = None
        elif op in ('rept', 'irp', 'irpc'):
            # "labels are local to the individual repetitions" unless {GLOBALSYMBOLS}: every repetition is an
            # expansion of its own
            if exp is not None:
                raise Unspecified('repetition inside a macro body')
            if op == 'rept':
                substs = [{} for _ in range(st[1])]
            elif op == 'irp':
                substs = [{st[1]: a} for a in st[2]]
            else:
                substs = [{st[1]: c} for c in st[2]]
            for sub in substs:
                e = Expansion()
                self.nexp += 1
                e.id = self.nexp
                e.locals = {}
                e.globalsyms = st[3]
                e.subst = sub
                e.sect = self.cur
                self.expansions.append(e)
                self.lastglob_ctx = None
                for b in st[4]:
                    self.exec(b, line, e)
            self.lastglob_ctx = None
        else:
            raise Unspecified('unknown statement ' + op)

    def do_def(self, st, line, exp):
        _, how, rawname, value = st
        name = self.subst(rawname, exp)
        if value == 'PC':
            value = self.pc          # `name LABEL $`
        elif isinstance(value, str):
            value = int(self.subst(value, exp))
        cls = name_class(name)
        var = how in VAR_HOW
        is_label = (how == 'label')
        local_scope = None
        if cls == 'nameless-def':
            if not is_label or exp is not None:
                raise Unspecified('nameless temporary symbol not defined as a plain label')
            if name == '-':
                iname = ('B', self.backcnt)
                self.backcnt += 1
                self.backlog = ([iname] + self.backlog)[:3]
            elif name == '+':
                iname = ('F', self.fwdcnt)
                self.fwdcnt += 1
            else:
                iname = ('F', self.fwdcnt)
                self.fwdcnt += 1
                self.backlog = ([iname] + self.backlog)[:3]
        elif cls == 'named-temp':
            if exp is not None or var:
                raise Unspecified('named temporary in macro / as variable')
            iname = ('T', self.canon(name[2:]), self.region)
        elif cls == 'composed':
            if exp is not None or var:
                raise Unspecified('composed temporary in macro / as variable')
            if self.lastglob is None or self.lastglob_ctx != (self.cur.id, None):
                raise Unspecified('composed temporary without a preceding non-temporary symbol in the same section')
            iname = ('N', self.lastglob + self.canon(name))
        elif cls == 'plain':
            iname = ('N', self.canon(name))
            # "incremented upon every definition of a non-temporary symbol"
            self.region += 1
            self.lastglob = self.canon(name)
            self.lastglob_ctx = (self.cur.id, exp.id if exp else None)
        else:
            raise Unspecified('cannot define ' + name)
        if is_label:
            value = self.pc
            self.pc += self.nopsize
        if exp is not None and is_label and not exp.globalsyms:
            # macro-local label
            if iname in exp.locals:
                self.err(line, E_DOUBLE)
                return
            s = Symbol(iname, self.cur, False, how, line, scope=exp.id)
            s.assigns.append((self.time, value))
            s.first_time = self.time
            exp.locals[iname] = s
            return
        dest = self.cur
        via = None
        extra = None
        if cls == 'plain':
            pend = self.pending[self.cur.id]
            ent = pend.pop(iname[1], None)
            if ent is not None:
                kind, tgt, dline = ent
                if var:
                    raise Unspecified('PUBLIC/GLOBAL/FORWARD on a variable')
                if kind == 'public':
                    dest = tgt
                    via = 'public'
                elif kind == 'global':
                    if tgt is self.cur:
                        raise Unspecified('GLOBAL into the own section')
                    parts = []
                    s = self.cur
                    while s is not tgt:
                        parts.append(s.name if not self.cs else s.spelled)
                        s = s.parent
                    parts.reverse()
                    extra = (('N', '_'.join(parts) + '_' + iname[1]), tgt)
                else:
                    via = 'forward'
        if extra is not None:
            self.enter(extra[0], extra[1], var, value, how, line, 'global-copy')
        self.enter(iname, dest, var, value, how, line, via)

    def enter(self, iname, dest, var, value, how, line, via):
        key = (iname, dest.id)
        old = self.table.get(key)
        if old is not None:
            if not old.var and not var:
                self.err(line, E_DOUBLE)
                return
            if old.var != var:
                self.err(line, E_VAR2CONST if old.var else E_CONST2VAR)
                return
            old.assigns.append((self.time, value))
            return
        s = Symbol(iname, dest, var, how, line, via=via)
        s.assigns.append((self.time, value))
        s.first_time = self.time
        self.table[key] = s

    def do_decl(self, st, line, exp):
        _, kind, items = st
        if self.cur is self.glob:
            raise Unspecified('PUBLIC/GLOBAL/FORWARD outside a section')
        pend = self.pending[self.cur.id]
        for name, target in items:
            name = self.subst(name, exp)
            if target is not None:
                target = self.subst(target, exp)
            if name_class(name) != 'plain':
                raise Unspecified('declaration of a temporary symbol')
            nm = self.canon(name)
            if nm in pend:
                okind = pend[nm][0]
                if {okind, kind} == {'forward', 'public'}:
                    # "It does not make sense to define a symbol private and public; this will be regarded as an error"
                    self.err(line, E_CONFLICT)
                    continue
                raise Unspecified('symbol declared twice in one section')
            if kind == 'forward':
                if target is not None:
                    raise Unspecified('FORWARD with a section')
                pend[nm] = (kind, self.cur, line)
                continue
            tgt = self.glob if target is None else self.find_section(target, self.cur)
            if tgt == 'bad':
                raise Unspecified('export to an invalid section')
            pend[nm] = (kind, tgt, line)

    def lookup_now(self, name, sect):
        """plain unqualified lookup of a non-temporary name from a section, on the complete table"""
        iname = ('N', self.canon(name))
        for s in sect.chain():
            sym = self.table.get((iname, s.id))
            if sym is not None:
                return sym
        return None

    def do_stack(self, st, line, exp):
        # resolution needs the complete table: deferred, see resolve_all(); here only record
        self.res.stackops.append((st, line, self.time, self.cur, exp))

    # -- resolution on the complete table -----------------------------------
    def resolve_all(self):
        # stack operations and references are replayed in time order, because POPV assigns
        ops = [(t, 0, ('stack', st, line, sect, exp)) for (st, line, t, sect, exp) in self.res.stackops]
        ops += [(r.time, 1, ('ref', r)) for r in self.res.refs]
        ops.sort(key=lambda x: (x[0], x[1]))
        stacks = {}
        for t, _, op in ops:
            if op[0] == 'ref':
                self.resolve(op[1])
                continue
            _, st, line, sect, exp = op
            if exp is not None:
                raise Unspecified('PUSHV/POPV in a macro')
            sname = self.canon(st[1])
            for name in st[2]:
                if name_class(name) != 'plain' or '[' in name:
                    raise Unspecified('PUSHV/POPV of a temporary or qualified symbol')
                sym = self.lookup_now(name, sect)
                if sym is None:
                    raise Unspecified('PUSHV/POPV of an unknown symbol')
                if sym.first_time > t:
                    # "All symbols referenced in the list already have to exist"
                    raise Unspecified('PUSHV/POPV of a symbol defined further down')
                cur = sym.value_at(t) if sym.var else sym.final()
                if st[0] == 'pushv':
                    if cur is None:
                        raise Unspecified('PUSHV of a variable not yet assigned in this pass')
                    stacks.setdefault(sname, []).append(cur)
                else:
                    if not sym.var:
                        raise Unspecified('POPV into a constant')
                    if cur is None:
                        raise Unspecified('POPV into a variable not yet assigned in this pass')
                    stk = stacks.get(sname)
                    if not stk:
                        self.err(line, E_STACKEMPTY)
                        continue
                    v = stk.pop()
                    if not stk:
                        del stacks[sname]
                    # insert the assignment in time order
                    sym.assigns.append((t, v))
                    sym.assigns.sort(key=lambda x: x[0])
        self.stacks = stacks
        if stacks:
            self.res.warnings.append((None, 230))

    def resolve(self, r):
        cls = name_class(r.name)
        kindname = cls
        try:
            if cls == 'nameless-back':
                k = len(r.name)
                if k > 3:
                    raise Unspecified('sight of nameless temporaries is 3')
                if k > len(r.backlog):
                    raise Unspecified('fewer than %d minus symbols defined before' % k)
                iname = r.backlog[k - 1]
            elif cls == 'nameless-fwd':
                k = len(r.name)
                if k > 3:
                    raise Unspecified('sight of nameless temporaries is 3')
                iname = ('F', r.fwd + k - 1)
            elif cls == 'nameless-def':
                if r.name == '/':
                    raise Unspecified('/ cannot be referenced')
                k = 1
                if r.name == '-':
                    if not r.backlog:
                        raise Unspecified('no minus symbol defined before')
                    iname = r.backlog[0]
                    kindname = 'nameless-back'
                else:
                    iname = ('F', r.fwd)
                    kindname = 'nameless-fwd'
            elif cls == 'named-temp':
                iname = ('T', self.canon(r.name[2:]), r.region)
            elif cls == 'composed':
                if not r.lastglob_ok:
                    raise Unspecified('composed temporary without a preceding non-temporary symbol in the same section')
                iname = ('N', r.lastglob + self.canon(r.name))
            else:
                iname = ('N', self.canon(r.name))
            if r.qual is not None and cls != 'plain':
                raise Unspecified('section qualifier on a temporary symbol')
            if r.exp is not None and cls != 'plain':
                raise Unspecified('temporary symbol referenced in a macro body')
            # where to look
            if r.qual is None:
                chain = list(r.sect.chain())
                qform = 'plain'
            else:
                tgt = self.find_section(r.qual, r.sect)
                if r.qual == '':
                    qform = 'qual-global'
                elif _PARENT_RE.match(r.qual.upper()):
                    qform = 'qual-' + r.qual.upper()
                else:
                    qform = 'qual-name'
                if tgt == 'bad':
                    r.verdict = 'badsect'
                    r.kind = qform
                    self.err(r.line, E_UNKSECT)
                    return
                chain = [tgt]
            sym = None
            if iname[0] in ('B', 'F'):
                # "the three last minus symbols / the next three plus symbols": positional; only compared
                # when definition and reference sit in the same section (the manual says nothing about others)
                owners = [s2 for (in2, sid), s2 in self.table.items() if in2 == iname]
                if owners and owners[0].sect is not r.sect:
                    raise Unspecified('nameless temporary defined in another section')
            if r.qual is None and r.exp is not None and iname in r.exp.locals:
                sym = r.exp.locals[iname]
                kindname = 'macro-local'
            else:
                for s in chain:
                    sym = self.table.get((iname, s.id))
                    if sym is not None:
                        break
            # would the first pass already find a definition (any, not necessarily the right one)?
            # FORWARD restricts the first pass to the own section.
            p1chain = [r.sect] if r.fwd_pending else chain
            r.p1 = any((iname, s.id) in self.table and self.table[(iname, s.id)].first_time < r.time for s in p1chain)
            if r.qual is None and r.exp is not None and iname in r.exp.locals and r.exp.locals[iname].first_time < r.time:
                r.p1 = True
            if cls == 'plain':
                r.kind = qform if kindname != 'macro-local' else 'macro-local'
            else:
                r.kind = kindname
            if sym is None:
                r.verdict = 'undef'
                self.err(r.line, E_UNDEF, 'p2')
                return
            if sym.var:
                v = sym.value_at(r.time)
                if v is None:
                    raise Unspecified('variable read before its first assignment in the pass')
                r.kind = 'variable' if r.kind == 'plain' else r.kind + '-variable'
            else:
                v = sym.final()
            if r.is_str != isinstance(v, tuple):
                raise Unspecified('string / integer symbol exported through the wrong kind of data statement')
            r.verdict = 'val'
            r.value = norm(v)
            r.sym = sym
            r.when = 'before-def' if r.time < sym.first_time else 'after-def'
            # what other definitions could be mistaken for it
            for (in2, sid), s2 in self.table.items():
                if s2 is sym:
                    continue
                if in2 == iname or (in2[0] == iname[0] and in2[0] in ('T',) and in2[1] == iname[1]) or \
                        (iname[0] in ('B', 'F') and in2[0] in ('B', 'F')):
                    rel = 'other-section-definition'
                    if in2 == iname:
                        if any(c.id == sid for c in sym.sect.chain()):
                            rel = 'outer-definition'
                        elif any(c.id == sym.sect.id for c in s2.sect.chain()):
                            rel = 'inner-definition'
                    elif in2[0] == 'T':
                        rel = 'temporary-of-another-region'
                    else:
                        rel = 'another-nameless-temporary'
                    for (_, val) in s2.assigns:
                        r.alts.setdefault(norm(val), rel)
            # macro-local labels of that name (of this or another expansion)
            for e in self.expansions:
                s2 = e.locals.get(iname)
                if s2 is not None and s2 is not sym:
                    rel = 'macro-local-label-of-another-expansion' if kindname == 'macro-local' else 'macro-local-label'
                    r.alts.setdefault(norm(s2.final()), rel)
            if sym.var:
                for (tt, val) in sym.assigns:
                    if norm(val) != r.value:
                        r.alts.setdefault(norm(val), 'older-or-later-value-of-the-variable')
        except Unspecified as e:
            r.verdict = 'unspec'
            r.value = str(e)
