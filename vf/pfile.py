"""Independent reader and writer for AS code files (doc/file-formats.md).

Little endian.  magic $1489, then records:
  $00       creator string up to EOF (last record)
  $01..$7f  short data record: header is the CPU family, segment CODE,
            granularity implied by the family; start:u32 length:u16 data
  $80       entry point: u32
  $81       data record: family:u8 segment:u8 gran:u8 start:u32 length:u16 data
  $82..$84  data record variants with relocation info (same layout as $81)
  $85       relocation info block: npatch:u32 nexport:u32 strlen:u32,
            npatch*(u64,u32,u32), nexport*(u32,u32,u64), strlen bytes
"""
import struct

MAGIC = b'\x89\x14'
SEG_NAMES = ['NOTHING', 'CODE', 'DATA', 'IDATA', 'XDATA', 'YDATA', 'BITDATA', 'IO', 'REG', 'ROMDATA', 'EEDATA']


class FormatError(Exception):
    pass


class Rec:
    __slots__ = ('kind', 'hdr', 'cpu', 'seg', 'gran', 'start', 'data', 'short', 'entry', 'creator', 'raw')

    def __init__(self, kind, **kw):
        self.kind = kind          # 'data' | 'entry' | 'creator' | 'reloc'
        self.hdr = kw.get('hdr', 0x81)
        self.cpu = kw.get('cpu')
        self.seg = kw.get('seg', 1)
        self.gran = kw.get('gran', 1)
        self.start = kw.get('start', 0)
        self.data = kw.get('data', b'')
        self.short = kw.get('short', False)
        self.entry = kw.get('entry')
        self.creator = kw.get('creator')
        self.raw = kw.get('raw')

    def __repr__(self):
        if self.kind == 'data':
            return 'Data(cpu=%02x seg=%d gran=%d start=%x len=%d%s)' % (
                self.cpu, self.seg, self.gran, self.start, len(self.data), ' short' if self.short else '')
        if self.kind == 'entry':
            return 'Entry(%x)' % self.entry
        if self.kind == 'creator':
            return 'Creator(%r)' % self.creator
        return 'Reloc(%d bytes)' % len(self.raw or b'')

    def key(self):
        return (self.kind, self.cpu, self.seg, self.gran, self.start, bytes(self.data), self.entry)


def parse(buf, short_gran=None, strict=True):
    """Parse a code file.  short_gran: function family -> granularity for
    short records (needed only if such records occur).  Raises FormatError."""
    if len(buf) < 2 or buf[:2] != MAGIC:
        raise FormatError('bad magic')
    pos = 2
    recs = []
    n = len(buf)
    while True:
        if pos >= n:
            raise FormatError('missing creator record (EOF at %d)' % pos)
        h = buf[pos]
        pos += 1
        if h == 0x00:
            recs.append(Rec('creator', creator=buf[pos:]))
            return recs
        if h == 0x80:
            if pos + 4 > n:
                raise FormatError('truncated entry record')
            recs.append(Rec('entry', entry=struct.unpack_from('<I', buf, pos)[0]))
            pos += 4
            continue
        if h == 0x85:
            if pos + 12 > n:
                raise FormatError('truncated reloc info header')
            np_, ne, sl = struct.unpack_from('<III', buf, pos)
            tot = 12 + np_ * 16 + ne * 16 + sl
            if pos + tot > n:
                raise FormatError('truncated reloc info')
            recs.append(Rec('reloc', raw=buf[pos:pos + tot]))
            pos += tot
            continue
        if 0x81 <= h <= 0x84:
            if pos + 3 > n:
                raise FormatError('truncated record header')
            cpu, seg, gran = buf[pos], buf[pos + 1], buf[pos + 2]
            pos += 3
            short = False
        elif h <= 0x7f:
            cpu, seg = h, 1
            gran = short_gran(h) if short_gran else 1
            short = True
        else:
            raise FormatError('unknown record header $%02x at %d' % (h, pos - 1))
        if pos + 6 > n:
            raise FormatError('truncated record (start/length)')
        start, length = struct.unpack_from('<IH', buf, pos)
        pos += 6
        if pos + length > n:
            raise FormatError('record data runs past EOF')
        if strict:
            if gran not in (1, 2, 4, 8):
                raise FormatError('granularity %d' % gran)
            if length % gran:
                raise FormatError('length %d not a multiple of granularity %d' % (length, gran))
            if seg >= len(SEG_NAMES):
                raise FormatError('segment %d' % seg)
        recs.append(Rec('data', hdr=(0x81 if short else h), cpu=cpu, seg=seg, gran=gran, start=start,
                        data=buf[pos:pos + length], short=short))
        pos += length


def build(recs, creator=b'AS 1.42/x86_64-Linux', magic=MAGIC, end=True):
    out = bytearray(magic)
    for r in recs:
        if r.kind == 'data':
            if r.short:
                out.append(r.cpu)
            else:
                out += bytes([r.hdr, r.cpu, r.seg, r.gran])
            out += struct.pack('<IH', r.start & 0xffffffff, len(r.data) & 0xffff)
            out += r.data
        elif r.kind == 'entry':
            out.append(0x80)
            out += struct.pack('<I', r.entry & 0xffffffff)
        elif r.kind == 'reloc':
            out.append(0x85)
            out += r.raw
        elif r.kind == 'creator':
            out.append(0)
            out += r.creator
            return bytes(out)
    if end:
        out.append(0)
        out += creator
    return bytes(out)


def data(cpu, start, payload, seg=1, gran=1, short=False, hdr=0x81):
    return Rec('data', cpu=cpu, seg=seg, gran=gran, start=start, data=bytes(payload), short=short, hdr=hdr)


def entry(addr):
    return Rec('entry', entry=addr)


def image(recs, want=None):
    """dict (cpu, seg) -> dict byteaddr -> byte, later records overwrite.
    Byte address = start*gran + offset."""
    img = {}
    for r in recs:
        if r.kind != 'data':
            continue
        if want and not want(r):
            continue
        m = img.setdefault((r.cpu, r.seg), {})
        base = r.start * r.gran
        for i, b in enumerate(r.data):
            m[base + i] = b
    return img


def merged_runs(recs):
    """per (cpu, seg, gran): list of maximal address-contiguous runs [start_byteaddr, bytes]
    in file order (a run is extended only by a directly following adjacent record)."""
    runs = {}
    for r in recs:
        if r.kind != 'data' or not r.data:
            continue
        k = (r.cpu, r.seg, r.gran)
        lst = runs.setdefault(k, [])
        base = r.start * r.gran
        if lst and lst[-1][0] + len(lst[-1][1]) == base:
            lst[-1][1] += r.data
        else:
            lst.append([base, bytearray(r.data)])
    return runs
